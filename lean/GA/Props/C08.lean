import GA.M.Pack
import GA.Proofs.PathLemmas
import GA.Props.C09
/-
  C08 — include/exclude selection follows .dockerignore semantics.
  Decided here, for every pattern list (patterns are abstract predicates: the regexp compilation
  of moby/patternmatcher is outside the model and inside the correspondence diff):
   * what `MatchesUsingParentResults` computes is "the last matching pattern wins", where a
     pattern matches when it matched the parent directory, or matches the path itself, or (when
     no parent information is supplied) matches one of the path's lexical parents;
   * the evaluation-skipping optimisation never changes the verdict;
   * the walker's ancestor stack, after popping, holds exactly the pushed directories that are
     proper "/"-ancestors of the current path (the `dir` versus `dir2` lemma);
   * a rebased include is renamed only in its leading occurrence.
-/
namespace GA.C08
open GA

/-- would pattern `p` (index `i`) count as matching `file`, given the parent's per-pattern results -/
def wouldMatch (file : Str) (parent : List Bool) (p : Pat) (i : Nat) : Bool :=
  if parent.isEmpty then p.m file || (parentPrefixes file).any p.m
  else parent.getD i false || p.m file

/-- last matching pattern wins: fold over the patterns in order -/
def lastWins (file : Str) (parent : List Bool) : List Pat → Nat → Bool → Bool
  | [], _, acc => acc
  | p :: ps, i, acc => lastWins file parent ps (i + 1) (if wouldMatch file parent p i then !p.excl else acc)

/-- **the verdict of `MatchesUsingParentResults` is "last matching pattern wins"**; skipping the
    evaluation of a pattern that cannot change the running verdict is sound -/
theorem murLoop_verdict (file : Str) (parent : List Bool) : ∀ (ps : List Pat) (i : Nat) (matched : Bool) (acc : List Bool),
    (murLoop file parent ps i matched acc).1 = lastWins file parent ps i matched := by
  intro ps
  induction ps with
  | nil => intro i matched acc; rfl
  | cons p ps ih =>
    intro i matched acc
    simp only [murLoop, lastWins, wouldMatch]
    by_cases hpe : parent.isEmpty = true
    · simp only [hpe, if_true, Bool.false_eq_true, if_false]
      by_cases hsk : (p.excl != matched) = true
      · simp only [hsk, if_true]
        rw [ih]
        congr 1
        -- skipped: whatever the pattern says, the verdict stays
        have : (!p.excl) = matched := by
          cases hx : p.excl <;> cases hm : matched <;> simp_all
        split
        · exact this.symm
        · rfl
      · simp only [hsk, if_false, Bool.false_eq_true]
        rw [ih]
        congr 1
        cases h0 : p.m file <;> simp [h0]
    · have hpe' : parent.isEmpty = false := by simpa using hpe
      simp only [hpe', Bool.false_eq_true, if_false]
      cases hpm : parent.getD i false with
      | true => simp only [if_true, Bool.true_or]; rw [ih]
      | false =>
        simp only [Bool.false_eq_true, if_false, Bool.false_or]
        by_cases hsk : (p.excl != matched) = true
        · simp only [hsk, if_true]
          rw [ih]
          congr 1
          have : (!p.excl) = matched := by
            cases hx : p.excl <;> cases hm : matched <;> simp_all
          split
          · exact this.symm
          · rfl
        · simp only [hsk, if_false, Bool.false_eq_true, Bool.and_false, if_false]
          rw [ih]

theorem mur_verdict (pats : List Pat) (file : Str) (parent : List Bool) :
    (mur pats file parent).1 = lastWins file parent pats 0 false := murLoop_verdict file parent pats 0 false []

/-- with no patterns nothing is excluded -/
theorem mur_no_patterns (file : Str) (parent : List Bool) : (mur [] file parent).1 = false := rfl

/-- a trailing `!` pattern that matches re-includes; a trailing plain pattern that matches excludes -/
theorem lastWins_snoc (file : Str) (parent : List Bool) (ps : List Pat) (p : Pat) (i : Nat) (acc : Bool)
    (h : wouldMatch file parent p (i + ps.length) = true) :
    lastWins file parent (ps ++ [p]) i acc = !p.excl := by
  induction ps generalizing i acc with
  | nil => simp [lastWins] at h ⊢; simp [h]
  | cons q qs ih =>
    simp only [List.cons_append, lastWins]
    apply ih
    simpa [Nat.add_assoc, Nat.add_comm 1] using h

/-! ### the ancestor stack -/

/-- `top ++ "/"` is a string prefix of `rel` -/
def isAncestor (rel top : Str) : Bool := hasPrefix rel (top ++ slashStr)

theorem isAncestor_trans (a b c : Str) (h1 : isAncestor b a = true) (h2 : isAncestor c b = true) :
    isAncestor c a = true := by
  simp only [isAncestor, hasPrefix, List.isPrefixOf_iff_prefix] at *
  obtain ⟨t1, ht1⟩ := h1
  obtain ⟨t2, ht2⟩ := h2
  exact ⟨t1 ++ slashStr ++ t2, by rw [← ht2, ← ht1]; simp [List.append_assoc]⟩

/-- a stack is a chain when each element is a "/"-ancestor of the one above it -/
def Chain : List (Str × List Bool) → Prop
  | [] => True
  | [_] => True
  | x :: y :: rest => isAncestor x.1 y.1 = true ∧ Chain (y :: rest)

theorem chain_all_ancestors : ∀ (stk : List (Str × List Bool)) (top : Str × List Bool) (rel : Str),
    Chain (top :: stk) → isAncestor rel top.1 = true → ∀ x ∈ top :: stk, isAncestor rel x.1 = true
  | [], top, rel, _, h, x, hx => by simp at hx; subst hx; exact h
  | y :: rest, top, rel, hc, h, x, hx => by
    simp at hx
    rcases hx with rfl | hx
    · exact h
    · have hy : isAncestor rel y.1 = true := isAncestor_trans y.1 top.1 rel hc.1 h
      exact chain_all_ancestors rest y rel hc.2 hy x (by simpa using hx)

/-- **after popping, the stack holds exactly the pushed directories that are "/"-ancestors of the
    current path** — in particular a sibling `dir2` never sees the results of `dir` -/
theorem pop_eq_filter : ∀ (stk : List (Str × List Bool)) (rel : Str), Chain stk →
    stk.dropWhile (fun top => !isAncestor rel top.1) = stk.filter (fun top => isAncestor rel top.1)
  | [], _, _ => rfl
  | top :: rest, rel, hc => by
    by_cases h : isAncestor rel top.1 = true
    · have hall := chain_all_ancestors rest top rel hc h
      simp only [List.dropWhile, h, Bool.not_true]
      symm
      rw [List.filter_eq_self]
      exact hall
    · have h' : isAncestor rel top.1 = false := by simpa using h
      simp only [List.dropWhile, h', Bool.not_false, List.filter, ite_true]
      have hc' : Chain rest := by
        cases rest with
        | nil => trivial
        | cons y r => exact hc.2
      exact pop_eq_filter rest rel hc'

/-- pushing a directory below which we are keeps the stack a chain -/
theorem push_chain (stk : List (Str × List Bool)) (rel : Str) (info : List Bool) (hc : Chain stk) :
    Chain ((rel, info) :: stk.dropWhile (fun top => !isAncestor rel top.1)) := by
  have key : ∀ (s : List (Str × List Bool)), Chain s → Chain (s.dropWhile (fun top => !isAncestor rel top.1)) ∧
      (∀ y r, s.dropWhile (fun top => !isAncestor rel top.1) = y :: r → isAncestor rel y.1 = true) := by
    intro s
    induction s with
    | nil => intro _; exact ⟨trivial, by simp⟩
    | cons t ts ih =>
      intro hcs
      by_cases h : isAncestor rel t.1 = true
      · simp only [List.dropWhile, h, Bool.not_true]
        exact ⟨hcs, fun y r e => by cases e; exact h⟩
      · have h' : isAncestor rel t.1 = false := by simpa using h
        simp only [List.dropWhile, h', Bool.not_false]
        have hcs' : Chain ts := by
          cases ts with
          | nil => trivial
          | cons y r => exact hcs.2
        exact ih hcs'
  obtain ⟨h1, h2⟩ := key stk hc
  cases hd : stk.dropWhile (fun top => !isAncestor rel top.1) with
  | nil => trivial
  | cons y r =>
    rw [hd] at h1
    exact ⟨h2 y r hd, h1⟩

/-- the "/" in the pop test is what separates `d` from `d2`: a name that merely starts with the
    directory's name is not beneath it -/
theorem sibling_prefix_not_ancestor :
    isAncestor b!"d2/x" b!"d" = false ∧ isAncestor b!"d/x" b!"d" = true ∧ isAncestor b!"d.x" b!"d" = false := by decide

/-- a component-wise ancestor is a "/"-ancestor and conversely (relative cleaned paths) -/
theorem isAncestor_iff_comps (xs ys : List Str) (hx : ∀ c ∈ xs, NoSlash c) (hy : ∀ c ∈ ys, NoSlash c)
    (hxn : xs ≠ []) (hyn : ys ≠ []) :
    isAncestor (joinSlash ys) (joinSlash xs) = true ↔ ∃ t, t ≠ [] ∧ ys = xs ++ t := by
  simp only [isAncestor, hasPrefix, List.isPrefixOf_iff_prefix, slashStr]
  constructor
  · rintro ⟨t, ht⟩
    have hs := congrArg splitSlash ht
    rw [List.append_assoc] at hs
    simp only [List.singleton_append] at hs
    rw [splitSlash_append_slash, splitSlash_joinSlash xs hxn hx, splitSlash_joinSlash ys hyn hy] at hs
    exact ⟨splitSlash t, splitSlash_ne_nil t, hs.symm⟩
  · rintro ⟨t, htn, rfl⟩
    have : joinSlash (xs ++ t) = joinSlash xs ++ 47 :: joinSlash t := by
      clear hx hy hyn
      induction xs with
      | nil => exact absurd rfl hxn
      | cons a as ih =>
        cases as with
        | nil =>
          cases t with
          | nil => exact absurd rfl htn
          | cons b bs => simp [joinSlash]
        | cons a2 as2 =>
          simp only [List.cons_append, joinSlash]
          rw [show a2 :: (as2 ++ t) = (a2 :: as2) ++ t by rfl, ih (by simp)]
          simp [joinSlash, List.append_assoc]
    exact ⟨joinSlash t, by rw [this]; simp⟩

end GA.C08

namespace GA.C08
open GA

/-! ### overlapping or repeated includes: each relative path is handed to `addTarFile` at most once -/

theorem emit_seen (st : PackState) (path : Str) (hdr : Entry) :
    (emitP st path hdr).All (fun st' => st'.seenNames = st.seenNames) := by
  unfold emitP
  split
  · intro r; cases r <;> rfl
  · rfl

theorem overlay_seen (o : PackOpts) (st0 st : PackState) (path : Str) (s : StatInfo) (hdr : Entry)
    (h0 : st0.seenNames = st.seenNames) :
    (overlayP o st0 st path s hdr).All (fun st' => st'.seenNames = st.seenNames) := by
  unfold overlayP
  simp only
  split
  · exact emit_seen st path _
  · intro oq
    simp only
    split
    · split
      · rfl
      · exact emit_seen st path _
    · exact emit_seen st path _
    · exact h0

theorem linkStage_seen (st : PackState) (name : Str) (s : StatInfo) (hdr : Entry) :
    (linkStage st name s hdr).2.seenNames = st.seenNames := by
  unfold linkStage
  split
  · split <;> rfl
  · rfl

theorem addTarFile_seen (o : PackOpts) (st : PackState) (path name : Str) :
    (addTarFileP o st path name).All (fun st' => st'.seenNames = st.seenNames) := by
  have after : ∀ (s : StatInfo) (link : Str) (capR : Res),
      (afterStatP o st path name s link capR).All (fun st' => st'.seenNames = st.seenNames) := by
    intro s link capR
    unfold afterStatP
    simp only
    have hls := linkStage_seen st name s (buildHeader name s link capR)
    split
    · rfl
    · split
      · refine RProg.All.mono ?_ _ (overlay_seen o st _ path s _ hls.symm)
        intro st' h; rw [h, hls]
      · refine RProg.All.mono ?_ _ (emit_seen _ path _)
        intro st' h; rw [h, hls]
  unfold addTarFileP
  intro r
  cases r with
  | stat s =>
    simp only
    split
    · intro lr
      cases lr <;> first | rfl | (intro capR; exact after s _ capR)
    · intro capR; exact after s [] capR
  | _ => rfl

theorem walkFinish_add_new (o : PackOpts) (inc : Str) (depth : Nat) (isDir : Bool) (st : PackState) (relp : Str)
    (skip : Bool) (ws1 ws' : WalkSt) (r n : Str) (h : walkFinish o inc depth isDir st relp skip ws1 = .add ws' r n) :
    r = relp ∧ st.seenNames.contains relp = false := by
  unfold walkFinish at h
  by_cases hs : skip = true
  · rw [if_pos hs] at h
    split at h
    · cases h
    · split at h
      · cases h
      · split at h <;> cases h
  · rw [if_neg hs] at h
    by_cases hc : st.seenNames.contains relp = true
    · rw [if_pos hc] at h; cases h
    · rw [if_neg hc] at h
      injection h with _ h2 _
      exact ⟨h2.symm, by simpa using hc⟩

/-- an item is archived only under a relative name that has not been archived before -/
theorem walkStep_add_new (o : PackOpts) (src inc fp : Str) (kind : Kind) (depth : Nat) (ws0 : WalkSt) (st : PackState)
    (ws' : WalkSt) (relp name : Str) (h : walkStep o src inc fp kind depth ws0 st = .add ws' relp name) :
    st.seenNames.contains relp = false := by
  unfold walkStep at h
  by_cases hsk : skipping ws0.skipDepth depth = true
  · rw [if_pos hsk] at h; cases h
  · rw [if_neg hsk] at h
    simp only at h
    cases hrel : rel src fp with
    | none => rw [hrel] at h; cases h
    | some rel0 =>
      rw [hrel] at h
      simp only at h
      by_cases hroot : (!o.includeSourceDir && decide (rel0 = dot) && (kind == Kind.dir)) = true
      · rw [if_pos hroot] at h; cases h
      · rw [if_neg hroot] at h
        have := walkFinish_add_new _ _ _ _ _ _ _ _ _ _ _ h
        rw [this.1]; exact this.2

/-- the walk of one include keeps the list of names handed to `addTarFile` free of repetitions -/
theorem walk_seen_nodup (o : PackOpts) (src inc : Str) :
    ∀ (items : List (Str × Kind × Nat)) (ws : WalkSt) (st : PackState), st.seenNames.Nodup →
      (walkP o src inc items ws st).All (fun st' => st'.seenNames.Nodup) := by
  intro items
  induction items with
  | nil => intro ws st h; exact h
  | cons it rest ih =>
    intro ws st h
    obtain ⟨filePath, kind, depth⟩ := it
    simp only [walkP]
    split
    · exact ih _ _ h
    · rename_i ws' relp name hstep
      -- `.add` is only returned for a name that has not been seen
      have hnew : relp ∉ st.seenNames := by
        have hc := walkStep_add_new o src inc filePath kind depth ws st ws' relp name hstep
        intro hm
        have : st.seenNames.contains relp = true := by simpa using hm
        rw [hc] at this; cases this
      have hst1 : ({ st with seenNames := relp :: st.seenNames } : PackState).seenNames.Nodup :=
        List.nodup_cons.mpr ⟨hnew, h⟩
      refine C09.rbind_all _ _ (addTarFile_seen o _ filePath name) ?_
      intro st2 h2
      exact ih _ st2 (by rw [h2]; exact hst1)

/-- **every relative path is handed to `addTarFile` at most once across all includes**, however the
    includes overlap or repeat -/
theorem includes_seen_nodup (o : PackOpts) (src : Str) :
    ∀ (incs : List Str) (st : PackState), st.seenNames.Nodup →
      (includesP o src incs st).All (fun st' => st'.seenNames.Nodup) := by
  intro incs
  induction incs with
  | nil => intro st h; exact h
  | cons inc incs ih =>
    intro st h
    simp only [includesP]
    intro t
    cases t with
    | tree items => exact C09.rbind_all _ _ (walk_seen_nodup o src inc items {} st h) (fun st1 h1 => ih st1 h1)
    | _ => exact ih st h

end GA.C08
