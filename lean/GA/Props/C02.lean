import GA.M.Guards
import GA.Generated.Facts
import GA.Proofs.Within
/-
  C02 — plain extraction refuses every lexically escaping entry.
  Property theorems only; helper lemmas live in GA/Proofs.
  `d` is the (cleaned, absolute) destination as `untarHandler`/`applyLayerHandler` pass it on.
-/
namespace GA.C02
open GA

/-- containment by path component: `p` is `d` or beneath it -/
def Within (d p : Str) : Prop := compsOf d <+: compsOf p

theorem isWithin_iff_Within (d p : Str) (hd : CleanAbs d) (hp : CleanAbs p) :
    isWithin d p = true ↔ Within d p := by
  obtain ⟨cd, hcd, rfl⟩ := hd
  obtain ⟨cp, hcp, rfl⟩ := hp
  unfold Within
  rw [compsOf_cleanAbs cd hcd, compsOf_cleanAbs cp hcp]
  exact isWithin_iff cd cp hcd hcp

theorem nameGuard_eq (d n : Str) (hd : CleanAbs d) :
    nameGuard d n = if isWithin d (join d (clean n)) then .ok (join d (clean n)) else .breakout := by
  have hp : CleanAbs (join d (clean n)) := join_cleanAbs d _ hd
  unfold nameGuard isWithin
  obtain ⟨cd, hcd, rfl⟩ := hd
  obtain ⟨cp, hcp, hpe⟩ := hp
  rw [hpe]
  cases hr : rel (47 :: joinSlash cd) (47 :: joinSlash cp) with
  | none =>
    exfalso
    have cd' := clean_of_cleanAbs _ ⟨cd, hcd, rfl⟩
    have cp' := clean_of_cleanAbs _ ⟨cp, hcp, rfl⟩
    unfold rel at hr
    simp only [cd', cp'] at hr
    split at hr
    · cases hr
    · have hnd : (47 :: joinSlash cd) ≠ dot := by simp [dot]
      simp only [hnd, if_false, isAbs_cons, ne_eq, not_true_eq_false] at hr
      rw [relElems_cleanAbs cd hcd, relElems_cleanAbs cp hcp] at hr
      simp only [dropCommon, if_true] at hr
      split at hr
      · rename_i hh
        cases h1 : (dropCommon cd cp).1 with
        | nil => simp [h1] at hh
        | cons x xs =>
          simp [h1] at hh
          exact (hcd x (dropCommon_fst_mem cd cp x (by simp [h1]))).2.2.1 hh
      · split at hr <;> cases hr
  | some r =>
    simp only [hr]
    by_cases h1 : r = dotdot
    · simp [h1, hasPrefix, dotdot, dotdotSlash]
    · by_cases h2 : hasPrefix r dotdotSlash = true
      · simp [h2]
      · simp [h1, h2]

/-- **soundness of the name guard**: an accepted entry path is the destination or beneath it -/
theorem nameGuard_sound (d n p : Str) (hd : CleanAbs d) (h : nameGuard d n = .ok p) :
    Within d p ∧ CleanAbs p ∧ p = join d (clean n) := by
  rw [nameGuard_eq d n hd] at h
  have hp : CleanAbs (join d (clean n)) := join_cleanAbs d _ hd
  split at h
  · rename_i hw
    cases h
    exact ⟨(isWithin_iff_Within d _ hd hp).mp hw, hp, rfl⟩
  · cases h

/-- **completeness**: an entry whose path is within the destination is never refused -/
theorem nameGuard_complete (d n : Str) (hd : CleanAbs d) (h : Within d (join d (clean n))) :
    nameGuard d n = .ok (join d (clean n)) := by
  rw [nameGuard_eq d n hd]
  have hp : CleanAbs (join d (clean n)) := join_cleanAbs d _ hd
  simp [(isWithin_iff_Within d _ hd hp).mpr h]

/-- every escaping name is refused with the breakout error (never another outcome) -/
theorem nameGuard_refuses (d n : Str) (hd : CleanAbs d) (h : ¬ Within d (join d (clean n))) :
    nameGuard d n = .breakout := by
  rw [nameGuard_eq d n hd]
  have hp : CleanAbs (join d (clean n)) := join_cleanAbs d _ hd
  have : isWithin d (join d (clean n)) = false := by
    cases hw : isWithin d (join d (clean n)) with
    | false => rfl
    | true => exact absurd ((isWithin_iff_Within d _ hd hp).mp hw) h
  simp [this]

/-- hard-link targets: accepted ⇔ within the extraction directory -/
theorem linkGuard_iff (xd ln : Str) (hd : CleanAbs xd) :
    (linkGuard xd ln = .ok (join xd ln) ↔ Within xd (join xd ln)) ∧
    (linkGuard xd ln = .breakout ↔ ¬ Within xd (join xd ln)) := by
  have hp : CleanAbs (join xd ln) := join_cleanAbs xd _ hd
  unfold linkGuard
  have := isWithin_iff_Within xd _ hd hp
  cases hw : isWithin xd (join xd ln) with
  | true => simp [this.mp hw, hw]
  | false =>
    have hn : ¬ Within xd (join xd ln) := fun h => by simp [this.mpr h] at hw
    simp [hn, hw]

theorem isAbs_splitLast (s : Str) (h : isAbs s = true) : isAbs (splitLast s).1 = true := by
  unfold splitLast
  simp only
  cases s with
  | nil => simp [isAbs] at h
  | cons c cs =>
    have hc : c = 47 := by simpa [isAbs] using h
    subst hc
    have hpre : ((List.reverse (47 :: cs)).dropWhile (· ≠ 47)).reverse <+: (47 :: cs) := by
      have := List.dropWhile_suffix (l := (47 :: cs : List UInt8).reverse) (· ≠ 47)
      have := List.reverse_prefix.mpr this
      simpa using this
    have hne : ((List.reverse (47 :: cs)).dropWhile (· ≠ 47)).reverse ≠ [] := by
      intro e
      have e' : (List.reverse (47 :: cs)).dropWhile (· ≠ 47) = [] := by simpa using e
      have := dropWhile_nil_all _ _ e' 47 (by simp)
      simp at this
    obtain ⟨t, ht⟩ := hpre
    cases hl : ((List.reverse (47 :: cs)).dropWhile (· ≠ 47)).reverse with
    | nil => exact absurd hl hne
    | cons x xs =>
      rw [hl] at ht
      simp at ht
      simp [isAbs, ht.1]

theorem cleanAbs_isAbs {s : Str} (h : CleanAbs s) : isAbs s = true := by
  obtain ⟨cs, _, rfl⟩ := h; simp [isAbs]

theorem dir_cleanAbs (p : Str) (hp : CleanAbs p) : CleanAbs (dir p) :=
  clean_cleanAbs _ (isAbs_splitLast p (cleanAbs_isAbs hp))

/-- symlink targets (relative or not, resolved against the link's directory as the code does) -/
theorem symlinkGuard_iff (p xd ln : Str) (hd : CleanAbs xd) (hp : CleanAbs p) :
    (symlinkGuard p xd ln = .ok (join (dir p) ln) ↔ Within xd (join (dir p) ln)) ∧
    (symlinkGuard p xd ln = .breakout ↔ ¬ Within xd (join (dir p) ln)) := by
  have ht : CleanAbs (join (dir p) ln) := join_cleanAbs _ _ (dir_cleanAbs p hp)
  unfold symlinkGuard
  have := isWithin_iff_Within xd _ hd ht
  cases hw : isWithin xd (join (dir p) ln) with
  | true => simp [this.mp hw, hw]
  | false =>
    have hn : ¬ Within xd (join (dir p) ln) := fun h => by simp [this.mpr h] at hw
    simp [hn, hw]

/-- whiteout targets: the removed path is within the destination, or the entry is refused -/
theorem whiteoutGuard_sound (d p t : Str) (k : Nat) (hd : CleanAbs d) (hp : CleanAbs p)
    (h : whiteoutGuard d p k = .ok t) : Within d t ∧ Within d (dir p) ∧ t = join (dir p) ((base p).drop k) := by
  have hdir := dir_cleanAbs p hp
  have ht : CleanAbs (join (dir p) ((base p).drop k)) := join_cleanAbs _ _ hdir
  unfold whiteoutGuard at h
  simp only at h
  split at h
  · cases h
  · rename_i h1
    split at h
    · rename_i h2
      cases h
      refine ⟨(isWithin_iff_Within d _ hd ht).mp h2, (isWithin_iff_Within d _ hd hdir).mp ?_, rfl⟩
      simpa using h1
    · cases h

theorem whiteoutGuard_complete (d p : Str) (k : Nat) (hd : CleanAbs d) (hp : CleanAbs p)
    (h1 : Within d (dir p)) (h2 : Within d (join (dir p) ((base p).drop k))) :
    whiteoutGuard d p k = .ok (join (dir p) ((base p).drop k)) := by
  have hdir := dir_cleanAbs p hp
  have ht : CleanAbs (join (dir p) ((base p).drop k)) := join_cleanAbs _ _ hdir
  unfold whiteoutGuard
  simp [(isWithin_iff_Within d _ hd hdir).mpr h1, (isWithin_iff_Within d _ hd ht).mpr h2]

theorem opaqueGuard_sound (d p t : Str) (hd : CleanAbs d) (hp : CleanAbs p)
    (h : opaqueGuard d p = .ok t) : Within d t ∧ t = dir p := by
  have hdir := dir_cleanAbs p hp
  unfold opaqueGuard at h
  simp only at h
  split at h
  · rename_i h1; cases h; exact ⟨(isWithin_iff_Within d _ hd hdir).mp h1, rfl⟩
  · cases h

/-! ### the pinned tree: the same statements are false (regression witnesses, D1 D2 D3) -/

/-- D1: the pinned name guard accepts `..` and hands out the destination's parent -/
theorem pinned_nameGuard_accepts_parent :
    nameGuardPinned b!"/a/dest" b!".." = .ok b!"/a" := by decide

/-- D2: the pinned link guard accepts a target in the sibling `dest2` -/
theorem pinned_linkGuard_accepts_sibling :
    linkGuardPinned b!"/a/dest" b!"../dest2/secret" = .ok b!"/a/dest2/secret" := by decide

/-- D3: the pinned whiteout target for `.wh...` is the destination's parent -/
theorem pinned_whiteout_removes_parent :
    whiteoutGuardPinned b!"/a/dest" b!"/a/dest/.wh..." 4 = .ok b!"/a" := by decide

/-- … and the fixed guards refuse exactly these inputs -/
theorem fixed_guards_refuse_witnesses :
    nameGuard b!"/a/dest" b!".." = .breakout ∧
    linkGuard b!"/a/dest" b!"../dest2/secret" = .breakout ∧
    whiteoutGuard b!"/a/dest" b!"/a/dest/.wh..." 4 = .breakout ∧
    nameGuard b!"/a/dest" b!"x/../y" = .ok b!"/a/dest/y" := by decide

/-- non-vacuity: a cleaned absolute destination exists -/
example : CleanAbs b!"/a/dest" :=
  ⟨[b!"a", b!"dest"], by intro c hc; simp at hc; rcases hc with rfl | rfl <;> simp [Norm, dot, dotdot], by decide⟩


/-- in the loops of `Unpack` and `UnpackLayer` the breakout decision on the entry's name comes, in the source,
    before the first call that touches the file system on the entry's behalf (implied parents, `lstat`,
    removal, creation) — regenerated on every run; the models place the guard there, and
    `C05.escaping_name_no_effect(_layer)` is what that order buys.  (In `UnpackLayer` the staging of
    `.wh..wh.plnk` files comes first: their names are reserved and they are written under a directory the
    extractor names itself.) -/
theorem guard_precedes_effects :
    Facts.unpackOrder = ["guard", "implied", "lstat", "remove", "remap", "create"] ∧
    Facts.unpackLayerOrder.filter (fun x => x = "guard" ∨ x = "implied" ∨ x = "lstat") = ["guard", "implied", "lstat"] := by
  decide

end GA.C02
