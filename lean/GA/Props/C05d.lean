import GA.Proofs.UnpackLast
import GA.Props.C05c
/-
  C05, the named half for regular files: **the last entry wins**.  For every archive `pre ++ e :: post` without
  symbolic-link entries, every option set of the default whiteout format and every prior symlink-free world:
  if the plain `Untar` reports success, `e` is a regular-file entry that is not excluded and does not name
  the destination itself, and no later entry names the same path, a path above it, a path beneath it or a
  hard link to it, then afterwards the path names a regular file with exactly `e`'s content, all twelve mode
  bits, the clamped modification time and — unless `NoLchown` — the translated (or overriding) owner.

  Whatever `pre` did there (a directory with content, a device, a file with other names) is replaced, and the
  deferred directory-time pass at the end leaves the file alone even when `pre` holds a *directory* entry for the
  very same path — the statement that could not be proved for the pinned code (finding D25).

  The proof composes, over the fold `loopRun`, the per-entry postcondition (`iter_reg_post`, built on C05b's
  `createTarFile_reg_exact`), the frame of the remaining entries (`loopRun_frame`, C05c) and
  `dirTimes_nondir`.
-/
namespace GA.C05
open GA

theorem untar_reg_last_wins (dest : Str) (o : Opts) (pre post : List Entry) (e : Entry) (w : World)
    (habs : isAbs dest = true) (hov : o.overlay = false)
    (hsym : ∀ x ∈ pre ++ e :: post, x.typ ≠ .sym)
    (hw : LW (pathComps (clean dest)) w)
    (hreg : e.typ = .reg)
    (hnx : o.excludes.any (fun x => hasPrefix (clean e.name) x) = false)
    (hne : pathComps (join (clean dest) (clean e.name)) ≠ pathComps (clean dest))
    (hcov : ¬ Cov (touched (clean dest) post) (pathComps (join (clean dest) (clean e.name))))
    (hanc : ¬ Anc (touched (clean dest) post) (pathComps (join (clean dest) (clean e.name))))
    (hok : ((untarP dest o (pre ++ e :: post)).run w).1 = .ok) :
    ∃ e' i n, remapE o e = some e' ∧
      ((untarP dest o (pre ++ e :: post)).run w).2.fs.lookup (pathComps (join (clean dest) (clean e.name))) = some i ∧
      ((untarP dest o (pre ++ e :: post)).run w).2.fs.inode i = some n ∧
      n.kind = .reg ∧ n.data = e.body ∧ n.perm = e.mode &&& 0o7777 ∧ n.mtime = some (boundTime e.mtime) ∧
      (o.noLchown = false → (n.uid, n.gid) = o.chownOpts.getD (e'.uid, e'.gid)) := by
  have hd : CleanAbs (clean dest) := clean_cleanAbs dest habs
  unfold untarP unpackP at hok ⊢
  rw [unpackLoop_run] at hok ⊢
  rw [loopRun_append] at hok ⊢
  have hsymPre : ∀ x ∈ pre, x.typ ≠ .sym := fun x hx => hsym x (by simp [hx])
  have hsymPost : ∀ x ∈ post, x.typ ≠ .sym := fun x hx => hsym x (by simp [hx])
  have hpreF := loopRun_frame _ (clean dest) o hd rfl hov pre [] w hsymPre hw (fun _ h => by cases h)
  cases hpre : loopRun (clean dest) o pre [] w with
  | mk r1 w1 =>
    rw [hpre] at hok hpreF
    cases r1 with
    | error out =>
      exfalso
      simp only at hok
      exact loopRun_error_ne_ok _ _ _ _ _ _ _ hpre hok
    | ok d1 =>
      simp only at hok hpreF ⊢
      have hw1 : LW _ w1 := hpreF.2.1
      have hd1 : DirsOK _ (clean dest) d1 := hpreF.2.2 d1 rfl
      simp only [loopRun] at hok ⊢
      cases hit : (unpackIterP (clean dest) o e d1).run w1 with
      | mk r2 w2 =>
        rw [hit] at hok
        cases r2 with
        | error out =>
          exfalso
          simp only at hok
          have := Prog.All.run _ w1 (iter_error_ne_ok (clean dest) o e d1)
          rw [hit] at this
          exact this out rfl hok
        | ok d2 =>
          simp only at hok ⊢
          obtain ⟨hd2, hw2, e', i, n, hrem, hl2, huniq, hi2, hfin⟩ :=
            iter_reg_post _ (clean dest) o hd rfl hov e d1 w1 hw1 hreg hnx hne d2 w2 hit
          subst hd2
          have hpostF := loopRun_frame _ (clean dest) o hd rfl hov post d2 w2 hsymPost hw2 hd1
          cases hpo : loopRun (clean dest) o post d2 w2 with
          | mk r3 w3 =>
            rw [hpo] at hok hpostF
            cases r3 with
            | error out =>
              exfalso
              simp only at hok
              exact loopRun_error_ne_ok _ _ _ _ _ _ _ hpo hok
            | ok d3 =>
              simp only at hok hpostF ⊢
              -- the remaining entries leave the file alone
              have hquiet : QuietI (touched (clean dest) post) w2.fs i :=
                ⟨⟨⟨_, hl2⟩, fun p hp => by rw [huniq p hp]; exact hcov⟩, fun p hp => by rw [huniq p hp]; exact hanc⟩
              have hi3 : w3.fs.inode i = some n := by rw [hpostF.1.inode_quiet i hquiet]; exact hi2
              have hl3 : w3.fs.lookup _ = some i := hpostF.1.names_keep _ i hl2 hcov
              -- and so does the deferred directory-time pass
              have hd3 : DirsOK _ (clean dest) d3.reverse := fun x hx => hpostF.2.2 d3 rfl x (by simpa using hx)
              have hdt := dirTimes_nondir _ (clean dest) d3.reverse w3 hpostF.2.1 hd3
              have hk : n.kind ≠ .dir := by rw [hfin.1]; intro h; cases h
              refine ⟨e', i, n, hrem, ?_, hdt.2 i n hi3 hk, hfin.1, ?_, ?_, ?_, hfin.2.2.2.2⟩
              · rw [KeepsNames.run _ _ (keeps_dirTimes (clean dest) d3.reverse)]; exact hl3
              · rw [hfin.2.1]
                unfold remapE at hrem
                cases hh : toHostPair o e.uid e.gid with
                | none => rw [hh] at hrem; cases hrem
                | some pr => rw [hh] at hrem; simp at hrem; rw [← hrem]
              · rw [hfin.2.2.1]
                unfold remapE at hrem
                cases hh : toHostPair o e.uid e.gid with
                | none => rw [hh] at hrem; cases hrem
                | some pr => rw [hh] at hrem; simp at hrem; rw [← hrem]
              · rw [hfin.2.2.2.1]
                unfold remapE at hrem
                cases hh : toHostPair o e.uid e.gid with
                | none => rw [hh] at hrem; cases hrem
                | some pr => rw [hh] at hrem; simp at hrem; rw [← hrem]

/-! ### non-vacuity, on the shape of finding D25: a directory entry, then a regular file of the same name -/

def exD25 : List Entry :=
  [{ name := b!"a/", typ := .dir, mode := 0o755, mtime := 1000 }]

def exD25file : Entry := { name := b!"a", typ := .reg, mode := 0o644, mtime := 2000, body := b!"hi", size := 2 }

/-- the extraction succeeds on the model … -/
theorem exD25_ok : ((untarP b!"/w/dest" {} (exD25 ++ exD25file :: [])).run { fs := exFS2 }).1 = .ok := by decide

/-- … so the theorem applies: `/w/dest/a` is the file of the last entry, with the file's time, not the directory's -/
example : ∃ i n, ((untarP b!"/w/dest" {} (exD25 ++ exD25file :: [])).run { fs := exFS2 }).2.fs.lookup [b!"w", b!"dest", b!"a"] = some i ∧
    ((untarP b!"/w/dest" {} (exD25 ++ exD25file :: [])).run { fs := exFS2 }).2.fs.inode i = some n ∧
    n.kind = .reg ∧ n.data = b!"hi" ∧ n.mtime = some 2000 := by
  have hP : pathComps (join (clean b!"/w/dest") (clean exD25file.name)) = [b!"w", b!"dest", b!"a"] := by decide
  obtain ⟨e', i, n, _, hl, hi, hk, hdt, _, hmt, _⟩ := untar_reg_last_wins b!"/w/dest" {} exD25 [] exD25file { fs := exFS2 }
    (by decide) rfl (by intro x hx; simp [exD25, exD25file] at hx; rcases hx with rfl | rfl <;> simp)
    exFS2_LW rfl (by decide) (by rw [hP]; decide)
    (by rintro ⟨t, ht, _⟩; simp [touched] at ht) (by rintro ⟨t, ht, _⟩; simp [touched] at ht) exD25_ok
  rw [hP] at hl
  exact ⟨i, n, hl, hi, hk, hdt, by rw [hmt]; decide⟩

end GA.C05
