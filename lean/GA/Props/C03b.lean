import GA.Props.C05b
import GA.Props.C05
import GA.M.Pack
/-
  C03, one regular file end to end: the header the packer builds from `lstat` (FileInfoHeader), fed to
  the extractor's `createTarFile`, recreates the file's content, permission bits, owner and (whole-second)
  modification time.
-/
namespace GA.C03
open GA

theorem and_4095_of_lt (n : Nat) (h : n < 4096) : n &&& 0o7777 = n := by
  have : (0o7777 : Nat) = 2 ^ 12 - 1 := by decide
  rw [this, Nat.and_two_pow_sub_one_eq_mod, Nat.mod_eq_of_lt (by simpa using h)]

/-- **a regular file survives tar → untar**: archive it with the packer's header construction and extract
    that entry to a fresh path in a symlink-free destination with default options — the new file has the
    source's content, twelve mode bits, uid, gid and modification time (for times the format can hold) -/
theorem reg_file_roundtrip (dp : Path) (path xd name : Str) (s : StatInfo) (capR : Res) (data : List UInt8)
    (o : Opts) (w : World) (t : Int)
    (hkind : s.kind = .reg) (hperm : s.perm < 4096) (hmt : s.mtime = some t) (ht0 : 0 ≤ t) (ht1 : t ≤ 9223372036)
    (hsize : s.size = data.length) (hopt : o.noLchown = false ∧ o.chownOpts = none)
    (hw : LW dp w) (hp : LexArg dp path) (hnew : w.fs.lookup (pathComps path) = none)
    (hok : ((createTarFileP path xd { (buildHeader name s [] capR) with body := data } o).run w).1 = .ok) :
    ∃ i n, ((createTarFileP path xd { (buildHeader name s [] capR) with body := data } o).run w).2.fs.lookup
        (pathComps path) = some i ∧
      ((createTarFileP path xd { (buildHeader name s [] capR) with body := data } o).run w).2.fs.inode i = some n ∧
      n.kind = .reg ∧ n.data = data ∧ n.perm = s.perm ∧ n.uid = s.uid ∧ n.gid = s.gid ∧ n.mtime = some t := by
  have hreg : ({ (buildHeader name s [] capR) with body := data } : Entry).typ = .reg := by
    simp [buildHeader, hkind, typOfKind]
  obtain ⟨i, n, hl, hi, hk, hd, hpm, hm, hown, _⟩ :=
    C05.reg_entry_exact dp path xd _ o w hw hp hreg hnew hok
  refine ⟨i, n, hl, hi, hk, hd, ?_, ?_, ?_, ?_⟩
  · rw [hpm]; simp only [buildHeader]; exact and_4095_of_lt s.perm hperm
  · have := hown hopt.1
    simp only [hopt.2, Option.getD_none, buildHeader] at this
    exact (Prod.mk.inj this).1
  · have := hown hopt.1
    simp only [hopt.2, Option.getD_none, buildHeader] at this
    exact (Prod.mk.inj this).2
  · rw [hm]
    simp only [buildHeader, hmt, Option.getD_some]
    rw [C05.clamp_identity t ht0 ht1]

end GA.C03
