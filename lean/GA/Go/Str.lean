/-
  Go strings as byte lists.  A Go `string` is a sequence of bytes; every string
  operation the library performs (`HasPrefix`, `TrimSuffix`, slicing after a
  prefix test, `+`) is a byte operation, so the model uses `List UInt8` and there
  is no UTF-8 side condition anywhere.
-/
namespace GA

abbrev Str := List UInt8

open Lean in
/-- `b!"abc"` : the bytes of a string literal as a `List UInt8` literal. -/
macro:max "b!" s:str : term => do
  let bytes := s.getString.toUTF8.toList
  let elems ← bytes.mapM fun b => `(($(quote b.toNat) : UInt8))
  `(([$(elems.toArray),*] : List UInt8))

/-- `strings.HasPrefix s p` -/
def hasPrefix (s p : Str) : Bool := p.isPrefixOf s

/-- `strings.HasSuffix s p` -/
def hasSuffix (s p : Str) : Bool := p.isSuffixOf s

/-- `strings.TrimSuffix s p` -/
def trimSuffix (s p : Str) : Str :=
  if hasSuffix s p then s.take (s.length - p.length) else s

/-- first index at which `p` occurs in `s`, as (before, after) split -/
def splitAtFirst (p : Str) : Str → Option (Str × Str)
  | [] => if p = [] then some ([], []) else none
  | c :: cs =>
    if p.isPrefixOf (c :: cs) then some ([], (c :: cs).drop p.length)
    else match splitAtFirst p cs with
      | some (a, b) => some (c :: a, b)
      | none => none

/-- `strings.Replace(s, old, new, 1)` for non-empty `old`; for empty `old` Go inserts
    `new` at the beginning. -/
def replaceFirst (s old new : Str) : Str :=
  match splitAtFirst old s with
  | some (a, b) => a ++ new ++ b
  | none => s

def dot : Str := [46]
def dotdot : Str := [46, 46]
def dotdotSlash : Str := [46, 46, 47]
def slashStr : Str := [47]

def toHexDigit (n : Nat) : Char :=
  if n < 10 then Char.ofNat (48 + n) else Char.ofNat (87 + n)

def hexOfStr (s : Str) : String :=
  String.ofList (s.flatMap fun b => [toHexDigit (b.toNat / 16), toHexDigit (b.toNat % 16)])

def hexVal (c : Char) : Option Nat :=
  if '0' ≤ c ∧ c ≤ '9' then some (c.toNat - 48)
  else if 'a' ≤ c ∧ c ≤ 'f' then some (c.toNat - 87)
  else if 'A' ≤ c ∧ c ≤ 'F' then some (c.toNat - 55)
  else none

def strOfHexAux : List Char → Option Str
  | [] => some []
  | [_] => none
  | a :: b :: rest => do
    let x ← hexVal a
    let y ← hexVal b
    let r ← strOfHexAux rest
    pure (UInt8.ofNat (x * 16 + y) :: r)

/-- decode a hex field of the line protocol; `-` stands for the empty string -/
def strOfHex (s : String) : Option Str :=
  if s = "-" then some [] else strOfHexAux s.toList

def showStr (s : Str) : String := if s = [] then "-" else hexOfStr s

end GA
