import GA.Go.Str
/-
  Model of Go's `path/filepath` on Unix: `Clean`, `Join`, `Rel`, `Dir`, `Base`,
  `Split`, `IsAbs` as functions on byte strings.  `Clean` is the component-stack
  formulation of Go's lazybuf loop; `Rel` follows the index loop of the Go source
  element by element, including its quirks (`Rel("a", ".") = "../."`).
  Validated against the real functions by `harness path` (exhaustive over short
  strings on the alphabet {a,b,.,/} and random beyond).
-/
namespace GA

def consHead (c : UInt8) : List Str → List Str
  | [] => [[c]]
  | h :: t => (c :: h) :: t

/-- `strings.Split(s, "/")` -/
def splitSlash : Str → List Str
  | [] => [[]]
  | c :: cs => if c = 47 then [] :: splitSlash cs else consHead c (splitSlash cs)

/-- `strings.Join(xs, "/")` -/
def joinSlash : List Str → Str
  | [] => []
  | [x] => x
  | x :: y :: xs => x ++ 47 :: joinSlash (y :: xs)

/-- one component of `Clean`: the stack is kept reversed (head = last component) -/
def cleanStep (rooted : Bool) (stk : List Str) (c : Str) : List Str :=
  if c = [] ∨ c = dot then stk
  else if c = dotdot then
    match stk with
    | [] => if rooted then [] else [dotdot]
    | t :: rest => if t = dotdot then dotdot :: stk else rest
  else c :: stk

def isAbs (s : Str) : Bool := s.head? = some 47

/-- the cleaned component stack, in order -/
def cleanComps (s : Str) : List Str :=
  ((splitSlash s).foldl (cleanStep (isAbs s)) []).reverse

/-- `filepath.Clean` -/
def clean (s : Str) : Str :=
  if s = [] then dot
  else
    let out := joinSlash (cleanComps s)
    if isAbs s then 47 :: out else if out = [] then dot else out

/-- `filepath.Join(a, b)` -/
def join (a b : Str) : Str :=
  if a ≠ [] then clean (a ++ 47 :: b)
  else if b ≠ [] then clean b
  else []

def join3 (a b c : Str) : Str :=
  if a ≠ [] then clean (a ++ 47 :: b ++ 47 :: c)
  else join b c

def dropCommon : List Str → List Str → List Str × List Str
  | a :: as, b :: bs => if a = b then dropCommon as bs else (a :: as, b :: bs)
  | as, bs => (as, bs)

/-- the elements the index loop of `Rel` sees in a cleaned path -/
def relElems (s : Str) : List Str :=
  if s = [] then [] else if s = slashStr then [[]] else splitSlash s

/-- `filepath.Rel(base, targ)`; `none` is the error return -/
def rel (basepath targpath : Str) : Option Str :=
  let base := clean basepath
  let targ := clean targpath
  if targ = base then some dot
  else
    let base := if base = dot then [] else base
    if isAbs base ≠ isAbs targ then none
    else
      let (rb, rt) := dropCommon (relElems base) (relElems targ)
      if rb.head? = some dotdot then none
      else if rb = [] then some (joinSlash rt)
      else
        let ups := joinSlash (rb.map fun _ => dotdot)
        some (if rt = [] then ups else ups ++ 47 :: joinSlash rt)

/-- index just after the last '/' : (prefix including it, rest) — `filepath.Split` -/
def splitLast (s : Str) : Str × Str :=
  ((s.reverse.dropWhile (· ≠ 47)).reverse, (s.reverse.takeWhile (· ≠ 47)).reverse)

/-- `filepath.Dir` -/
def dir (s : Str) : Str := clean (splitLast s).1

def stripTrailingSlashes (s : Str) : Str := (s.reverse.dropWhile (· = 47)).reverse

/-- `filepath.Base` -/
def base (s : Str) : Str :=
  if s = [] then dot
  else
    let t := stripTrailingSlashes s
    let b := (splitLast t).2
    if b = [] then slashStr else b

/-- the check added by the `fix:` commits (`isWithin` in archive.go) -/
def isWithin (d p : Str) : Bool :=
  match rel d p with
  | none => false
  | some r => r ≠ dotdot && !(hasPrefix r dotdotSlash)

/-- the check of the pinned tree's name guard: only `"../"` as a prefix -/
def relEscapesPinned (d p : Str) : Option Bool :=
  match rel d p with
  | none => none
  | some r => some (hasPrefix r dotdotSlash)

end GA
