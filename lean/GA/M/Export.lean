import GA.M.Pack
/-
  Mechanism model of `ExportChanges` (changes.go): sort the change list by path; a deletion becomes a
  whiteout header (no file system access, time = now), anything else goes through `addTarFile`.
  The clock is a parameter (`now`).
-/
namespace GA

inductive ChKind where
  | modify | add | delete
deriving DecidableEq, Repr, Inhabited

structure Change where
  path : Str
  kind : ChKind
deriving DecidableEq, Inhabited

/-- `changesByPath.Less`: byte-wise order of the paths -/
def insertChange (c : Change) : List Change → List Change
  | [] => [c]
  | d :: ds => if strLt c.path d.path then c :: d :: ds else d :: insertChange c ds

def sortChanges (cs : List Change) : List Change := cs.foldr insertChange []

/-- the header `ExportChanges` writes for a deletion -/
def whiteoutHdr (path : Str) (now : Int) : Entry :=
  { typ := .reg, name := (join (dir path) (whPrefix ++ base path)).drop 1, mode := 0, size := 0, mtime := now }

def exportLoop (o : PackOpts) (dirS : Str) (now : Int) : List Change → PackState → RProg PackState
  | [], st => .ret st
  | c :: cs, st =>
    if c.kind = .delete then exportLoop o dirS now cs { st with out := whiteoutHdr c.path now :: st.out }
    else (addTarFileP o st (join dirS c.path) (c.path.drop 1)).bind (fun st' => exportLoop o dirS now cs st')

/-- `ExportChanges(dir, changes, idMap)`: the entries written to the stream -/
def exportR (dirS : Str) (changes : List Change) (uidMaps gidMaps : List IDRange) (now : Int) : RProg (List Entry) :=
  (exportLoop { uidMaps := uidMaps, gidMaps := gidMaps } dirS now (sortChanges changes) {}).bind
    (fun st => .ret st.out.reverse)

def exportP (dirS : Str) (changes : List Change) (uidMaps gidMaps : List IDRange) (now : Int) : Prog (List Entry) :=
  (exportR dirS changes uidMaps gidMaps now).toProg

end GA
