import GA.Go.Path
/-
  The four lexical guards of the plain extractors, on strings, as the code computes them
  (after the `fix:` commits), and the variants of the pinned tree.
    archive.go  Unpack:        path := Join(dest, Clean(name)); rel := Rel(dest, path); rel == ".." || HasPrefix(rel, "../")
    diff.go     UnpackLayer:   the same test
    archive.go  createTarFile: TypeLink     isWithin(extractDir, Join(extractDir, Linkname))
                               TypeSymlink  isWithin(extractDir, Join(Dir(path), Linkname))
    diff.go     whiteout:      isWithin(dest, Dir(path)) && isWithin(dest, Join(Dir(path), base[len(".wh."):]))
-/
namespace GA

inductive Guard where
  | ok (p : Str)
  | breakout
  | error
deriving DecidableEq, Repr

/-- name guard of `Unpack` / `UnpackLayer` -/
def nameGuard (d n : Str) : Guard :=
  let p := join d (clean n)
  match rel d p with
  | none => .error
  | some r => if r = dotdot ∨ hasPrefix r dotdotSlash = true then .breakout else .ok p

/-- the pinned tree's name guard: only the `"../"` prefix is tested -/
def nameGuardPinned (d n : Str) : Guard :=
  let p := join d (clean n)
  match rel d p with
  | none => .error
  | some r => if hasPrefix r dotdotSlash = true then .breakout else .ok p

/-- hard-link target guard -/
def linkGuard (xd ln : Str) : Guard :=
  let t := join xd ln
  if isWithin xd t then .ok t else .breakout

/-- the pinned tree's link guard: raw string prefix -/
def linkGuardPinned (xd ln : Str) : Guard :=
  let t := join xd ln
  if hasPrefix t xd then .ok t else .breakout

/-- symlink target guard (`p` = the entry's own accepted path) -/
def symlinkGuard (p xd ln : Str) : Guard :=
  let t := join (dir p) ln
  if isWithin xd t then .ok t else .breakout

def symlinkGuardPinned (p xd ln : Str) : Guard :=
  let t := join (dir p) ln
  if hasPrefix t xd then .ok t else .breakout

/-- whiteout guard: `p` = accepted path whose base starts with the whiteout prefix of length `k`;
    result = the path that will be removed -/
def whiteoutGuard (d p : Str) (k : Nat) : Guard :=
  let dr := dir p
  if !isWithin d dr then .breakout
  else
    let t := join dr ((base p).drop k)
    if isWithin d t then .ok t else .breakout

/-- the pinned tree removes the target unchecked -/
def whiteoutGuardPinned (_d p : Str) (k : Nat) : Guard :=
  .ok (join (dir p) ((base p).drop k))

/-- the opaque-marker guard: the directory that will be walked -/
def opaqueGuard (d p : Str) : Guard :=
  let dr := dir p
  if isWithin d dr then .ok dr else .breakout

end GA
