import GA.Generated.Facts
/-
  internal/unshare `Go` as a small-step machine over one OS thread (DESIGN A.6), and a process as
  a pool of fungible threads plus calls in flight stepped by an arbitrary schedule.
  Runtime rules assumed (trusted base): a goroutine that exits while locked to its thread
  terminates the thread; unshare(2) with an irreversible flag makes the thread's state private
  for good; setns(2) on a saved namespace file restores that namespace.
-/
namespace GA.Unshare
open GA

def reversible : List Nat := Facts.reversibleFlags?.getD []

/-- does `flags` request `f` (`flags&f == f`) -/
def has (flags f : Nat) : Bool := flags &&& f == f

/-- `maskedFlags &^= f` for every key of reversibleSetnsFlags; `isReversible := maskedFlags == 0` -/
def isReversibleFlags (flags : Nat) : Bool :=
  (reversible.foldl (fun m f => m ^^^ (m &&& f)) flags) == 0

structure Thread where
  /-- irreversible private state (CLONE_FS, CLONE_NEWNS, …) -/
  taintIrrev : Bool := false
  /-- reversible namespaces currently differing from the rest of the process -/
  taintRev : List Nat := []
deriving DecidableEq, Repr

def Thread.tainted (t : Thread) : Bool := t.taintIrrev || !t.taintRev.isEmpty

/-- what can happen to the fallible steps of one call -/
structure Outcomes where
  openOk : Nat → Bool      -- opening /proc/self/task/<tid>/ns/<f>
  unshareOk : Bool
  setupOk : Bool
  setnsOk : Nat → Bool     -- restoring namespace f

inductive PC where
  | opening (rest : List Nat)     -- the loop over reversibleSetnsFlags (only when isReversible)
  | unshare
  | setup
  | fn
  | restoring (rest : List Nat)   -- deferred restores, most recently opened first
  | unlock                        -- the first-registered defer: unlock if still reversible
  | exit
  | done
deriving DecidableEq, Repr

structure CallState where
  flags : Nat
  o : Outcomes
  pc : PC
  thread : Thread := {}
  isRev : Bool
  hadDefer : Bool                 -- the unlock defer exists only when the call started reversible
  opened : List Nat := []         -- ns files opened so far (head = most recent)
  fnRan : Bool := false
  err : Bool := false
  released : Bool := false        -- UnlockOSThread ran

def CallState.init (flags : Nat) (o : Outcomes) : CallState :=
  let rev := isReversibleFlags flags
  { flags := flags, o := o, pc := if rev then .opening reversible else .unshare, isRev := rev, hadDefer := rev }

/-- where a `return` goes: through the defers if there are any -/
def CallState.ret (c : CallState) : CallState :=
  { c with pc := if c.hadDefer then .restoring c.opened else .exit }

def stepCall (c : CallState) : CallState :=
  match c.pc with
  | .opening [] => { c with pc := .unshare }
  | .opening (f :: fs) =>
    if has c.flags f then
      if c.o.openOk f then { c with opened := f :: c.opened, pc := .opening fs }
      else ({ c with err := true } : CallState).ret
    else { c with pc := .opening fs }
  | .unshare =>
    if c.o.unshareOk then
      { c with pc := .setup,
               thread := { taintIrrev := !(isReversibleFlags c.flags) && c.flags != 0,
                           taintRev := reversible.filter (has c.flags) } }
    else ({ c with err := true } : CallState).ret
  | .setup =>
    if c.o.setupOk then { c with pc := .fn } else ({ c with err := true } : CallState).ret
  | .fn => ({ c with fnRan := true } : CallState).ret
  | .restoring [] => { c with pc := .unlock }
  | .restoring (f :: fs) =>
    if c.isRev then
      if c.o.setnsOk f then
        { c with thread := { c.thread with taintRev := c.thread.taintRev.filter (· ≠ f) }, pc := .restoring fs }
      else { c with isRev := false, pc := .restoring fs }
    else { c with pc := .restoring fs }
  | .unlock => { c with released := c.isRev, pc := .exit }
  | .exit => { c with pc := .done }
  | .done => c

def runCall : Nat → CallState → CallState
  | 0, c => c
  | n+1, c => if c.pc = .done then c else runCall n (stepCall c)

/-- `unshare.Go(flags, setupfn, fn)` run to completion -/
def goM (flags : Nat) (o : Outcomes) : CallState := runCall (2 * reversible.length + 10) (CallState.init flags o)

/-! ### a process -/

structure Proc where
  pool : List Thread            -- fungible threads available to any goroutine
  calls : List CallState        -- calls in flight (each owns its locked thread)

/-- advance call `i` by one step; a call that exits unlocked hands its thread back, one that exits
    locked takes its thread with it -/
def Proc.step (p : Proc) (i : Nat) : Proc :=
  match p.calls[i]? with
  | none => p
  | some c =>
    let c' := stepCall c
    let pool' := if c.pc = .exit ∧ c.released then c.thread :: p.pool else p.pool
    { pool := pool', calls := p.calls.set i c' }

def Proc.run (p : Proc) : List Nat → Proc
  | [] => p
  | i :: is => (p.step i).run is

end GA.Unshare
