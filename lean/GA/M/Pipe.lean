/-
  io.Pipe and the producer protocol (archive.go Tarballer.Do / ExportChanges / the rewriters /
  compression.cmdStream), and the sync.Pool protocols (copyPool, bufioReader32KPool), as small
  state machines.  Real blocking, goroutine and process lifetimes are the runtime's: the models
  decide the protocol logic the repository contributes.
-/
namespace GA.Pipe

/-- `io.Pipe`: once either end is closed every later operation returns at once -/
inductive PipeSt where
  | open
  | readerClosed (err : Nat)      -- consumer called Close / CloseWithError(err); 0 = io.ErrClosedPipe
  | writerClosed (err : Option Nat)  -- producer closed: none = EOF for the reader, some e = error e
deriving DecidableEq, Repr

inductive WriteRes where
  | ok            -- handed to the reader (in the real pipe: blocks until read; the consumer model reads or closes)
  | closed (err : Nat)   -- returns immediately with the close error
deriving DecidableEq, Repr

def write (p : PipeSt) : WriteRes :=
  match p with
  | .open => .ok
  | .readerClosed e => .closed e
  | .writerClosed _ => .closed 0

/-- a producer's work items: per file a header write and possibly body writes -/
structure Item where
  body : Nat      -- number of body chunks

/-- what the consumer does: reads `k` writes and then closes with error `e`, or drains to the end -/
inductive Consumer where
  | drain
  | stopAfter (k : Nat) (err : Nat)

structure PState where
  pipe : PipeSt := .open
  written : Nat := 0          -- writes accepted so far
  steps : Nat := 0            -- producer steps performed (one per write attempt / lstat)
  bodyReads : Nat := 0        -- file-content reads performed
  stepsAfterClose : Nat := 0

/-- the consumer closes as soon as it has seen its quota -/
def consume (c : Consumer) (s : PState) : PState :=
  match c, s.pipe with
  | .stopAfter k e, .open => if s.written ≥ k then { s with pipe := .readerClosed e } else s
  | _, _ => s

/-- one write attempt by the producer -/
def attempt (c : Consumer) (s : PState) (isBody : Bool) : PState × WriteRes :=
  let s := consume c s
  match write s.pipe with
  | .ok => ({ s with written := s.written + 1, steps := s.steps + 1,
                     bodyReads := if isBody then s.bodyReads + 1 else s.bodyReads }, .ok)
  | .closed e => ({ s with steps := s.steps + 1, stepsAfterClose := s.stepsAfterClose + 1 }, .closed e)

/-- body of one file: stops at the first failed write (copyWithBuffer returns the error) -/
def writeBody (c : Consumer) : Nat → PState → PState × Bool
  | 0, s => (s, true)
  | n+1, s =>
    match attempt c s true with
    | (s', .ok) => writeBody c n s'
    | (s', .closed _) => (s', false)

/-- the walk of `Tarballer.Do`: for each file WriteHeader, then the body; an error is logged and the
    walk goes on — unless it is io.ErrClosedPipe (err = 0), which stops the walk -/
def walk (c : Consumer) : List Item → PState → PState
  | [], s => s
  | it :: rest, s =>
    match attempt c s false with
    | (s', .closed e) => if e = 0 then s' else walk c rest s'
    | (s', .ok) =>
      match writeBody c it.body s' with
      | (s'', true) => walk c rest s''
      | (s'', false) =>
        -- the failed copy's error: ErrClosedPipe stops the walk, anything else is logged
        match s''.pipe with
        | .readerClosed 0 => s''
        | _ => walk c rest s''

/-- `Do`: walk, then the deferred closes — always -/
def produce (c : Consumer) (items : List Item) : PState :=
  let s := walk c items {}
  match s.pipe with
  | .open => { s with pipe := .writerClosed none }
  | p => { s with pipe := p }     -- Close on a pipe whose reader is gone is a no-op

/-! ### sync.Pool protocols -/

/-- a pooled buffer is owned by the pool or by exactly one operation -/
inductive Owner where
  | pool
  | op (id : Nat)
deriving DecidableEq, Repr

inductive PoolEv where
  | get (op : Nat) (buf : Nat)
  | use (op : Nat) (buf : Nat)
  | put (op : Nat) (buf : Nat)
deriving DecidableEq, Repr

/-- ownership of each buffer after a schedule; `none` = the protocol was violated
    (use or put of a buffer one does not own, get of a buffer that is not in the pool) -/
def poolStep (own : Nat → Owner) : PoolEv → Option (Nat → Owner)
  | .get o b => if own b = .pool then some (fun x => if x = b then .op o else own x) else none
  | .use o b => if own b = .op o then some own else none
  | .put o b => if own b = .op o then some (fun x => if x = b then .pool else own x) else none

def poolRun (own : Nat → Owner) : List PoolEv → Option (Nat → Owner)
  | [] => some own
  | e :: es => match poolStep own e with
    | some own' => poolRun own' es
    | none => none

/-- the events one `copyWithBuffer` (Get; use*; Put) or one `bufferedReader` (Get; use*; Put at EOF; nothing after)
    contributes, in program order -/
def opEvents (o b uses : Nat) : List PoolEv := [.get o b] ++ List.replicate uses (.use o b) ++ [.put o b]

end GA.Pipe
