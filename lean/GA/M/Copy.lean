import GA.K.Prog
import GA.Generated.Facts
/-
  copy.go: the decision in PrepareArchiveCopy (regenerated), the renaming of the leading path element
  (`strings.Replace(name, old, new, 1)` in RebaseArchiveEntries, and the `fix:`ed rebase in Tarballer.Do),
  and the bounded symlink chase of CopyInfoDestinationPath.
-/
namespace GA.Copy
open GA

/-- the documented cp-style table (copy_unix_test.go "basic assumptions" + cases A–J):
    0 = extract into the existing directory DST; 1 = ErrCannotCopyDir; 2 = extract into DST's parent
    with the content renamed to DST's base name; 3 = ErrDirNotExists -/
def cpTable (dstExists dstIsDir srcIsDir dstAsserts : Bool) : Nat :=
  match dstExists, dstIsDir, srcIsDir, dstAsserts with
  | true, true, _, _ => 0          -- DST is a directory: copy into it (SRC's name, or contents for "/.")
  | true, false, true, _ => 1      -- a directory cannot replace a file
  | true, false, false, _ => 2     -- file over file: overwrite under DST's name
  | false, _, true, _ => 2         -- create DST as a directory
  | false, _, false, true => 3     -- "DST/" asserted but absent, and SRC is a file
  | false, _, false, false => 2    -- create DST as a file

/-- the rebase of Tarballer.Do after the fix: only a leading `include` element is replaced -/
def rebaseLeading (rel inc repl : Str) : Str :=
  if rel = inc ∨ hasPrefix rel (inc ++ slashStr) = true then repl ++ rel.drop inc.length else rel

/-- `maxSymlinkIter = 10`: the loop of CopyInfoDestinationPath; returns (readlinks issued, final path or none = error) -/
def chase (w : World) : Nat → Nat → Str → Nat × Option Str
  | 0, cnt, _ => (cnt, none)
  | fuel+1, cnt, path =>
    match (step w (.lstat path)).1 with
    | .stat s =>
      if s.kind == .sym then
        if 11 - fuel > 10 then (cnt, none)
        else match (step w (.readlink path)).1 with
          | .str t =>
            let nxt := if isAbs t then t else join (dir path) t
            chase w fuel (cnt + 1) nxt
          | _ => (cnt, none)
      else (cnt, some path)
    | _ => (cnt, some path)

end GA.Copy
