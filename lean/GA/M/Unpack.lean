import GA.K.Prog
import GA.Tar.Entry
import GA.M.IDMap
import GA.Generated.Facts
/-
  Mechanism models (layer M) of the extractors, statement by statement after the Go code
  (tree after the `fix:` commits):
    archive.go   createTarFile, createImpliedDirectories, Unpack, untarHandler
    diff.go      UnpackLayer, applyLayerHandler
    chrootarchive/*  untarHandler, invokeUnpack, resolvePathInChroot, doUnpack, doUnpackLayer
    moby/sys/user mkdirAs / setPermissions, os.MkdirAll
  Constants come from the regenerated facts.
-/
namespace GA

def whPrefix : Str := Facts.whiteoutPrefix?.getD []
def whMetaPrefix : Str := Facts.whiteoutMetaPrefix?.getD []
def whLinkDir : Str := Facts.whiteoutLinkDir?.getD []
def whOpaqueDir : Str := Facts.whiteoutOpaqueDir?.getD []
def impliedMode : Nat := Facts.impliedDirectoryMode?.getD 0

def isEPERM : Res → Bool
  | .err .EPERM => true
  | _ => false

def isENOENT : Res → Bool
  | .err .ENOENT => true
  | _ => false

/-- `setPermissions` of moby/sys/user -/
def setPermissionsP (p : Str) (mode : Nat) (owner : Option (Nat × Nat)) : Prog Res := do
  let r ← sys (.stat p)
  match r with
  | .stat s =>
    let c ← (if s.perm &&& 0o777 ≠ mode &&& 0o777 then sys (.chmod p (mode &&& 0o777)) else pure .ok)
    if isErr c then pure c
    else match owner with
      | none => pure .ok           -- (-1,-1): chown leaves both ids alone
      | some (u, g) => if s.uid = u ∧ s.gid = g then pure .ok else sys (.chown p u g true)
  | e => pure e

/-- ancestors of a cleaned absolute path from its parent up to (excluding) "/" -/
def ancestorsOf : Nat → Str → List Str
  | 0, _ => []
  | fuel+1, p =>
    let d := dir p
    if d = slashStr ∨ d = p then [] else d :: ancestorsOf fuel d

def missingOf : List Str → Prog (List Str)
  | [] => pure []
  | d :: ds => do
    let r ← sys (.stat d)
    let rest ← missingOf ds
    pure (if isENOENT r then d :: rest else rest)

def setAll (mode : Nat) (owner : Option (Nat × Nat)) : List Str → Prog Res
  | [] => pure .ok
  | p :: ps => do
    let r ← setPermissionsP p mode owner
    if isErr r then pure r else setAll mode owner ps

/-- `user.MkdirAllAndChown(path, mode, uid, gid, WithOnlyNew)` for an absolute path -/
def mkdirAllAndChownP (path0 : Str) (mode : Nat) (owner : Option (Nat × Nat)) : Prog Res := do
  let path := clean path0
  let r ← sys (.stat path)
  match r with
  | .stat s => if s.kind == .dir then pure .ok else pure (.err .ENOTDIR)
  | _ =>
    let first := if isENOENT r then [path] else []
    let missing ← missingOf (ancestorsOf path.length path)
    let m ← sys (.mkdirAll path mode)
    if isErr m then pure m
    else setAll mode owner (first ++ missing)

/-- `createImpliedDirectories(dest, hdr, options)`; `n` is the cleaned entry name -/
def impliedDirsP (dest n : Str) (o : Opts) : Prog Res :=
  if hasSuffix n slashStr then pure .ok
  else do
    let parentPath := join dest (dir n)
    let r ← sys (.lstat parentPath)
    if isENOENT r then mkdirAllAndChownP parentPath impliedMode (rootPair o) else pure .ok

def kindOfTyp : Typ → Kind
  | .chr => .chr
  | .blk => .blk
  | _ => .fifo

/-- errors of lsetxattr that `createTarFile` puts up with -/
def xattrTolerated (best : Bool) : Res → Bool
  | .err .EPERM => true
  | .err .ENOTSUP => best
  | _ => false

def setXattrsP (path : Str) (best : Bool) : List (Str × List UInt8) → Prog Res
  | [] => pure .ok
  | (k, v) :: rest => do
    let r ← sys (.setxattr path k v false)
    if isErr r && !xattrTolerated best r then pure r else setXattrsP path best rest

def isDirRes : Res → Bool
  | .stat s => s.kind == .dir
  | _ => false

def notSymlink : Res → Bool
  | .stat s => s.kind != .sym
  | _ => false

/-- the part of `createTarFile` after the object exists: owner, xattrs, mode, times -/
def applyMetaP (path : Str) (e : Entry) (o : Opts) : Prog Out := do
  let c ← (if o.noLchown then pure .ok else
    let (u, g) := o.chownOpts.getD (e.uid, e.gid)
    sys (.chown path u g false))
  if isErr c then return .err
  let x ← setXattrsP path o.bestEffortXattrs e.xattrs
  if isErr x then return .err
  -- handleLChmod
  let m ← (if e.typ == .link then do
      let l ← sys (.lstat path)
      if notSymlink l then sys (.chmod path e.mode) else pure .ok
    else if e.typ != .sym then sys (.chmod path e.mode) else pure .ok)
  if isErr m then return .err
  let t := boundTime e.mtime
  let u ← (if e.typ == .link then do
      let l ← sys (.lstat path)
      if notSymlink l then sys (.utimes path (some t) true) else pure .ok
    else if e.typ != .sym then sys (.utimes path (some t) true)
    else sys (.utimes path (some t) false))
  if isErr u then return .err
  return .ok

/-- `createTarFile(path, extractDir, hdr, reader, opts)` -/
def createTarFileP (path xd : Str) (e : Entry) (o : Opts) : Prog Out := do
  match e.typ with
  | .dir =>
    let l ← sys (.lstat path)
    if isDirRes l then applyMetaP path e o
    else
      let r ← sys (.mkdir path e.mode)
      if isErr r then return .err else applyMetaP path e o
  | .reg =>
    let r ← sys (.createWrite path e.mode e.body)
    if isErr r then return .err
    if e.body.length < e.size then return .err      -- unexpected EOF in the stream
    applyMetaP path e o
  | .blk | .chr =>
    if o.inUserNS then return .ok
    let r ← sys (.mknod path (kindOfTyp e.typ) e.mode (e.devmajor, e.devminor))
    if isErr r then return .err
    applyMetaP path e o
  | .fifo =>
    let r ← sys (.mknod path .fifo e.mode (0, 0))
    if isErr r then
      -- creating a fifo is refused with EPERM in most user namespaces: tolerated there
      if isEPERM r && o.inUserNS then return .ok else return .err
    else applyMetaP path e o
  | .link =>
    let t := join xd e.linkname
    if !isWithin xd t then return .breakout
    let r ← sys (.link t path)
    if isErr r then return .err
    applyMetaP path e o
  | .sym =>
    let t := join (dir path) e.linkname
    if !isWithin xd t then return .breakout
    let r ← sys (.symlink e.linkname path)
    if isErr r then return .err
    applyMetaP path e o
  | .xglobal => return .ok
  | .other => return .err

/-- a non-directory where a directory is needed -/
def notDirRes : Res → Bool
  | .stat si => si.kind != .dir
  | _ => false

/-- the deferred directory times; a path that a later entry replaced by something that is not a
    directory is left alone (fix D25) -/
def dirTimesP (dest : Str) : List Entry → Prog Out
  | [] => pure .ok
  | e :: es => do
    let l ← sys (.lstat (join dest e.name))
    if notDirRes l then dirTimesP dest es
    else
      let r ← sys (.utimes (join dest e.name) (some (boundTime e.mtime)) true)
      if isErr r then return .err
      dirTimesP dest es

/-- `remapIDs` -/
def remapE (o : Opts) (e : Entry) : Option Entry :=
  (toHostPair o e.uid e.gid).map (fun p => { e with uid := p.1, gid := p.2 })

/-- name guard as in `Unpack`/`UnpackLayer`: `some p` accepted path, else the outcome -/
def guardName (dest n : Str) : Except Out Str :=
  let p := join dest n
  match rel dest p with
  | none => .error .err
  | some r => if r = dotdot ∨ hasPrefix r dotdotSlash = true then .error .breakout else .ok p

/-- `overlayWhiteoutConverter.ConvertRead(hdr, path)`: `some true` = write the entry as usual,
    `some false` = converted (opaque xattr set on the directory / whiteout device created), `none` = error -/
def convertReadP (p : Str) (e : Entry) : Prog (Option Bool) :=
  let b := base p
  let d := dir p
  if b = whOpaqueDir then
    .call (.setxattr d opaqueKey [121] true) (fun r => if isErr r then .ret none else .ret (some false))
  else if hasPrefix b whPrefix then
    let orig := join d (b.drop whPrefix.length)
    .call (.mknod orig .chr 0 (0, 0)) (fun r =>
      if isErr r then .ret none
      else .call (.chown orig e.uid e.gid true) (fun c => if isErr c then .ret none else .ret (some false)))
  else .ret (some true)

/-- what `Unpack` does about an existing object at the entry's path:
    0 merge / nothing there, 1 conflict error, 2 skip the entry, 3 remove it first -/
def actOf (o : Opts) (l : Res) (e : Entry) (isSelf : Bool) : Nat :=
  match l with
  | .stat s =>
    let isD := s.kind == .dir
    if o.noOverwriteDirNonDir && isD && e.typ != .dir then 1
    else if o.noOverwriteDirNonDir && !isD && e.typ == .dir then 1
    else if isD && isSelf then 2            -- rel == ".": the entry names the destination itself (fix D23)
    else if !isD || e.typ != .dir then 3
    else 0
  | _ => 0

/-- the loop of `Unpack`; `dirs` accumulates directory headers in reverse -/
def unpackLoop (dest : Str) (o : Opts) : List Entry → List Entry → Prog Out
  | [], dirs => dirTimesP dest dirs.reverse
  | e :: es, dirs => do
    if e.typ == .xglobal then unpackLoop dest o es dirs
    else
      let n := clean e.name
      if o.excludes.any (fun x => hasPrefix n x) then unpackLoop dest o es dirs
      else match guardName dest n with
      | .error out => return out
      | .ok p =>
        let i ← impliedDirsP dest n o
        if isErr i then return .err
        let l ← sys (.lstat p)
        -- decide: conflict / skip / replace
        let act := actOf o l e (p == clean dest)
        if act = 1 then return .err
        if act = 2 then unpackLoop dest o es dirs
        else
          let rm ← (if act = 3 then sys (.removeAll p) else pure .ok)
          if isErr rm then return .err
          match remapE o e with
          | none => return .err
          | some e' =>
            -- overlayWhiteoutConverter.ConvertRead
            let conv ← (if o.overlay then convertReadP p e' else pure (some true))
            match conv with
            | none => return .err
            | some false => unpackLoop dest o es dirs        -- the whiteout file itself is not written
            | some true =>
            let out ← createTarFileP p dest e' o
            if out != .ok then return out
            unpackLoop dest o es (if e.typ == .dir then { e' with name := n } :: dirs else dirs)

/-- `archive.Unpack(stream, dest, options)` on a parsed entry list; `streamErr` = the reader fails after the entries -/
def unpackP (dest : Str) (o : Opts) (es : List Entry) : Prog Out := unpackLoop dest o es []

structure LState where
  size : Nat := 0
  dirs : List Entry := []
  unpacked : List Str := []
  staged : List (Str × Entry) := []
  tmp : Str := []

/-- the opaque-marker walk: remove every visited path that this layer did not unpack, no descent
    (`skip` = depth of a removed directory whose former descendants are not visited) -/
def opaqueWalkP (dirS : Str) (unpacked : List Str) : List (Str × Kind × Nat) → Option Nat → Prog Res
  | [], _ => pure .ok
  | (q, _, d) :: rest, skip =>
    if (match skip with | some sd => decide (d > sd) | none => false) then opaqueWalkP dirS unpacked rest skip
    else if q = dirS then opaqueWalkP dirS unpacked rest none
    else if unpacked.contains q then opaqueWalkP dirS unpacked rest none
    else do
      let r ← sys (.removeAll q)
      if isErr r then pure r else opaqueWalkP dirS unpacked rest (some d)

def layerFinish (dest : Str) (st : LState) (out : Out) : Prog (Out × Nat) := do
  -- deferred os.RemoveAll(aufsTempdir) runs on every exit once the directory was made
  let _ ← (if st.tmp ≠ [] then sys (.removeAll st.tmp) else pure .ok)
  pure (out, if out == .ok then st.size else 0)

/-- removal for a whiteout: first make sure the directory `os.RemoveAll` may have to open is not a
    fifo or a device (fix D16); `none` = refused -/
def whiteoutRemoveP (orig : Str) : Prog (Option Res) :=
  .call (.stat (dir orig)) (fun s =>
    if notDirRes s then .ret none
    else .call (.removeAll orig) (fun r => .ret (some r)))

/-- regular files under `.wh..wh.plnk` are staged in a temporary directory inside the destination -/
def stageP (dest : Str) (o : Opts) (e : Entry) (st : LState) (n : Str) : Prog (Except Out LState) :=
  if hasPrefix n whMetaPrefix && hasPrefix n whLinkDir && e.typ == .reg then do
    let b := base n
    let st1 := { st with staged := (b, e) :: st.staged.filter (fun x => x.1 ≠ b) }
    let mk ← (if st1.tmp = [] then sys (.mkdtemp dest b!"dockerplnk") else pure (.str st1.tmp))
    match mk with
    | .str t =>
      let st2 := { st1 with tmp := t }
      let out ← createTarFileP (join t b) dest e o
      if out != .ok then
        -- `defer os.RemoveAll(aufsTempdir)` was registered when the directory was made just above: it runs on
        -- this exit (a directory made for an earlier entry is remembered in the state and removed by `layerFinish`)
        if st1.tmp = [] then do
          let _ ← sys (.removeAll t)
          pure (.error out)
        else pure (.error out)
      else pure (.ok st2)
    | _ => pure (.error .err)
  else pure (.ok st)

/-- a hard link into the staging area is re-sourced from the staged header (a copy) and file -/
def resolveSrcP (st : LState) (e : Entry) : Prog (Except Out Entry) :=
  if e.typ == .link && hasPrefix (clean e.linkname) whLinkDir then do
    let lb := base e.linkname
    match st.staged.find? (fun x => x.1 = lb) with
    | none => pure (.error .err)
    | some (_, se) =>
      let d ← sys (.readFile (join st.tmp lb))
      match d with
      | .data bytes => pure (.ok { se with body := bytes, size := bytes.length })
      | _ => pure (.error .err)
  else pure (.ok e)

def layerLoop (dest : Str) (o : Opts) : List Entry → LState → Prog (Out × Nat)
  | [], st => do
    let r ← dirTimesP dest st.dirs.reverse
    layerFinish dest st r
  | e :: es, st0 => do
    let st := { st0 with size := st0.size + e.size }
    -- PAX global headers are ignored before any effect, as in `Unpack` (fix D26)
    if e.typ == .xglobal then layerLoop dest o es st
    else
    let n := clean e.name
    -- reserved-prefix entries: staging area
    let stR ← stageP dest o e st n
    match stR with
    | .error out =>
      -- the staging directory may have been created just before the failure
      layerFinish dest st out
    | .ok st =>
    if hasPrefix n whMetaPrefix && n ≠ whOpaqueDir then layerLoop dest o es st
    else match guardName dest n with
    | .error out => layerFinish dest st out
    | .ok p =>
      let i ← impliedDirsP dest n o
      if isErr i then layerFinish dest st .err
      else
      let b := base p
      if hasPrefix b whPrefix then
        let dr := dir p
        if !isWithin dest dr then layerFinish dest st .breakout
        else if b = whOpaqueDir then do
          let l ← sys (.lstat dr)
          if isErr l then layerFinish dest st .err
          else
            let t ← sys (.listTree dr)
            match t with
            | .tree items =>
              let w ← opaqueWalkP dr st.unpacked items none
              if isErr w then layerFinish dest st .err else layerLoop dest o es st
            | .err .ENOENT => layerLoop dest o es st
            | _ => layerFinish dest st .err
        else do
          let orig := join dr (b.drop whPrefix.length)
          if !isWithin dest orig then layerFinish dest st .breakout
          else if orig = clean dest then layerFinish dest st .err      -- the layer root itself (fix D24)
          else
            let r ← whiteoutRemoveP orig
            match r with
            | none => layerFinish dest st .err
            | some r => if isErr r then layerFinish dest st .err else layerLoop dest o es st
      else do
        let l ← sys (.lstat p)
        let needRm : Bool := match l with
          | .stat s => !(s.kind == .dir) || e.typ != .dir
          | _ => false
        -- the destination itself is never traded for a non-directory (fix D17)
        if needRm && p = clean dest && e.typ != .dir then layerFinish dest st .err
        else
        let rm ← (if needRm then sys (.removeAll p) else pure .ok)
        if isErr rm then layerFinish dest st .err
        else
          -- hard links into the staging area are re-sourced from the staged copy
          let srcR ← resolveSrcP st e
          match srcR with
          | .error out => layerFinish dest st out
          | .ok src =>
            match remapE o src with
            | none => layerFinish dest st .err
            | some src' =>
              let out ← createTarFileP p dest src' o
              if out != .ok then layerFinish dest st out
              else
                let st' : LState := { st with dirs := (if e.typ == .dir then { e with name := n } :: st.dirs else st.dirs),
                                              unpacked := p :: st.unpacked }
                layerLoop dest o es st'

/-- `archive.UnpackLayer(dest, layer, options)` -/
def unpackLayerP (dest : Str) (o : Opts) (es : List Entry) : Prog (Out × Nat) := layerLoop dest o es {}

/-- `archive.Untar` / `UntarUncompressed` (plain): `dest` is cleaned first -/
def untarP (dest : Str) (o : Opts) (es : List Entry) : Prog Out := unpackP (clean dest) o es

/-- `archive.ApplyLayer` / `ApplyUncompressedLayer` (plain): umask 0 for the duration -/
def applyLayerP (dest : Str) (o : Opts) (es : List Entry) (oldUmask : Nat) : Prog (Out × Nat) := do
  let _ ← sys (.setUmask 0)
  let r ← unpackLayerP (clean dest) o es
  let _ ← sys (.setUmask oldUmask)
  pure r

/-- `resolvePathInChroot(root, path)` -/
def resolvePathInChroot (root path : Str) : Option Str :=
  if root = [] then none
  else match rel root path with
    | none => none
    | some r =>
      let r := if r = dot then slashStr else r
      some (if r.head? ≠ some 47 then 47 :: r else r)

/-- `goInChroot(root, body)`: the body runs on a thread whose root was switched to `root`
    (unshare + MakeRSlave + SwitchRoot; a failure is reported before the body starts) -/
def jailedP {α : Type} (root : Str) (body : Prog α) (onErr : α) : Prog α :=
  .call (.chroot root) (fun c => if isErr c then .ret onErr else body)

/-- the part of chrootarchive's `untarHandler` that runs before the jail: create a missing
    destination when it is the root itself -/
def preJailDestP (dest root : Str) (o : Opts) : Prog (Except Out Str) :=
  if dest = root then
    .call (.stat (clean dest)) (fun s =>
      if isENOENT s then do
        let m ← mkdirAllAndChownP (clean dest) 0o755 (rootPair o)
        if isErr m then pure (Except.error Out.err) else pure (Except.ok (clean dest))
      else .ret (Except.ok (clean dest)))
  else .ret (Except.ok dest)

/-- `invokeUnpack` + `doUnpack` -/
def jailedUnpackP (root d : Str) (o : Opts) (es : List Entry) : Prog Out :=
  match resolvePathInChroot root d with
  | none => .ret .err
  | some relDest => jailedP root (unpackP relDest o es) .err

/-- `chrootarchive.Untar` / `UntarWithRoot` / `UntarUncompressed` -/
def chrootUntarP (dest root : Str) (o : Opts) (es : List Entry) : Prog Out :=
  (preJailDestP dest root o).bind (fun d1 =>
    match d1 with
    | .error out => .ret out
    | .ok d => jailedUnpackP root d o es)

/-- `chrootarchive.ApplyLayer` / `ApplyUncompressedLayer` -/
def chrootApplyLayerP (dest : Str) (o : Opts) (es : List Entry) : Prog (Out × Nat) :=
  jailedP (clean dest) (.call (.setUmask 0) (fun _ => unpackLayerP slashStr o es)) (.err, 0)

end GA
