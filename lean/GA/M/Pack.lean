import GA.K.Prog
import GA.Tar.Entry
import GA.M.IDMap
import GA.M.Copy
import GA.M.Unpack
/-
  Mechanism model of the producers (archive.go: Tarballer.Do, addTarFile, FileInfoHeader,
  ReadSecurityXattrToTarHeader, canonicalTarName; archive_linux.go: overlay ConvertWrite;
  chrootarchive: invokePack/doPack; changes.go: ExportChanges) as programs over layer K that
  emit a list of parsed entries.  The pattern matcher (moby/patternmatcher, outside /repo) is an
  abstract per-pattern predicate: text, exclusion flag and the set of paths its regexp matches.
-/
namespace GA

structure Pat where
  text : Str             -- cleaned pattern without the leading '!'
  excl : Bool            -- '!' pattern
  hits : List Str        -- the paths (among those the case can ask about) its compiled form matches
deriving Inhabited

structure PackOpts where
  includes : List Str := []
  includeSourceDir : Bool := false
  rebase : List (Str × Str) := []
  pats : List Pat := []
  uidMaps : List IDRange := []
  gidMaps : List IDRange := []
  chownOpts : Option (Nat × Nat) := none
  overlay : Bool := false
  opaqueXattr : Str := b!"trusted.overlay.opaque"
deriving Inhabited

def Pat.m (p : Pat) (path : Str) : Bool := p.hits.contains path

/-- the directory prefixes of a relative path: for "a/b/c" → ["a", "a/b"] -/
def parentPrefixes (path : Str) : List Str :=
  let cs := splitSlash (dir path)
  if dir path = dot then [] else (List.range cs.length).map (fun i => joinSlash (cs.take (i + 1)))

/-- `MatchesUsingParentResults(file, parentInfo)`; `parent = []` is the zero MatchInfo -/
def murLoop (file : Str) (parent : List Bool) : List Pat → Nat → Bool → List Bool → Bool × List Bool
  | [], _, matched, acc => (matched, acc.reverse)
  | p :: ps, i, matched, acc =>
    let pm : Bool := if parent.isEmpty then false else parent.getD i false
    if pm then murLoop file parent ps (i + 1) (!p.excl) (true :: acc)
    else if p.excl != matched then murLoop file parent ps (i + 1) matched (false :: acc)
    else
      let m0 := p.m file
      let m1 := if !m0 && parent.isEmpty then (parentPrefixes file).any p.m else m0
      murLoop file parent ps (i + 1) (if m1 then !p.excl else matched) (m1 :: acc)

def mur (pats : List Pat) (file : Str) (parent : List Bool) : Bool × List Bool :=
  murLoop file parent pats 0 false []

/-- `canonicalTarName` -/
def canonicalTarName (name : Str) (isDir : Bool) : Str :=
  if isDir && !hasSuffix name slashStr then name ++ slashStr else name

def typOfKind : Kind → Typ
  | .dir => .dir | .reg => .reg | .sym => .sym | .chr => .chr | .blk => .blk | .fifo => .fifo

/-- VFS_CAP_REVISION_3 (24 bytes, version byte 3) is rewritten to revision 2 (20 bytes) -/
def capForHeader (c : List UInt8) : List UInt8 :=
  if c.getD 3 0 = 3 then (c.set 3 2).take 20 else c

/-- stands for a modification time the kernel set implicitly (never compared) -/
def implicitT : Int := -9999999999999

structure PackState where
  seenNames : List Str := []
  seenInodes : List (Ino × Str) := []
  out : List Entry := []        -- reversed

def paxXattr (k : Str) : Str := k

/-- the header `FileInfoHeader` + `ReadSecurityXattrToTarHeader` build from lstat, readlink and lgetxattr -/
def buildHeader (name : Str) (s : StatInfo) (link : Str) (capR : Res) : Entry :=
  let xattrs : List (Str × List UInt8) := match capR with
    | .data c => [(capKey, capForHeader c)]
    | _ => []
  { typ := typOfKind s.kind, name := canonicalTarName name (s.kind == .dir), linkname := link,
    mode := s.perm, uid := s.uid, gid := s.gid, mtime := (s.mtime.getD implicitT),
    size := if s.kind == .reg then s.size else 0, xattrs := xattrs,
    devmajor := if s.kind == .chr || s.kind == .blk then s.rdev.1 else 0,
    devminor := if s.kind == .chr || s.kind == .blk then s.rdev.2 else 0 }

/-- hard-link bookkeeping (`SeenFiles`): a later name of a seen inode becomes a link entry naming
    the name under which the inode was first archived -/
def linkStage (st : PackState) (name : Str) (s : StatInfo) (hdr0 : Entry) : Entry × PackState :=
  if s.kind != .dir && s.nlink > 1 then
    match st.seenInodes.find? (fun x => x.1 = s.ino) with
    | some (_, old) => ({ hdr0 with typ := .link, linkname := old, size := 0 }, st)
    | none => (hdr0, { st with seenInodes := (s.ino, name) :: st.seenInodes })
  else (hdr0, st)

def isOverlayWhiteout (s : StatInfo) (hdr : Entry) : Bool := s.kind == .chr && hdr.devmajor == 0 && hdr.devminor == 0

/-- owner recorded in the header: host→container unless the entry is a whiteout; `none` = untranslatable -/
def ownerOf (o : PackOpts) (s : StatInfo) (hdr1 : Entry) : Option (Nat × Nat) :=
  let opt : Opts := { uidMaps := o.uidMaps, gidMaps := o.gidMaps }
  let own : Option (Nat × Nat) :=
    if !isOverlayWhiteout s hdr1 && !hasPrefix (base hdr1.name) whPrefix && !idMapEmpty opt then
      toContainerPair opt s.uid s.gid
    else some (hdr1.uid, hdr1.gid)
  own.map (fun ug => o.chownOpts.getD ug)

/-- write the header and, for a non-empty regular file, its body -/
def emitP (st : PackState) (path : Str) (hdr : Entry) : RProg PackState :=
  if hdr.typ == .reg && hdr.size > 0 then
    .call (.readFile path) (fun d => match d with
      | .data bytes => .ret { st with out := { hdr with body := bytes } :: st.out }
      | _ => .ret { st with out := hdr :: st.out })
  else .ret { st with out := hdr :: st.out }

/-- `overlayWhiteoutConverter.ConvertWrite` + the two `WriteHeader`s -/
def overlayP (o : PackOpts) (st0 st : PackState) (path : Str) (s : StatInfo) (hdr2 : Entry) : RProg PackState :=
  let hdr3 : Entry :=
    if isOverlayWhiteout s hdr2 then
      let sp := splitLast hdr2.name
      { hdr2 with name := join sp.1 (whPrefix ++ sp.2), mode := 0o600, typ := .reg, size := 0 }
    else hdr2
  if s.kind != .dir then emitP st path hdr3
  else
    .call (.getxattr path o.opaqueXattr) (fun oq => match oq with
      | .data v =>
        if v = [121] then
          let wo : Entry := { typ := .reg, mode := hdr3.mode &&& 0o777, name := join hdr3.name whOpaqueDir,
                              size := 0, uid := hdr3.uid, gid := hdr3.gid, mtime := 0 }
          let hdr4 : Entry := { hdr3 with xattrs := hdr3.xattrs.filter (fun x => x.1 ≠ o.opaqueXattr) }
          .ret { st with out := wo :: hdr4 :: st.out }
        else emitP st path hdr3
      | .err .ENODATA => emitP st path hdr3
      | _ => .ret st0)                  -- lgetxattr error: entry left out, its inode forgotten again

/-- after lstat (+ readlink) (+ lgetxattr): bookkeeping, ownership, conversion, emission -/
def afterStatP (o : PackOpts) (st : PackState) (path name : Str) (s : StatInfo) (link : Str) (capR : Res) :
    RProg PackState :=
  let hdr0 := buildHeader name s link capR
  let ls := linkStage st name s hdr0
  match ownerOf o s ls.1 with
  | none => .ret st                      -- untranslatable owner: entry left out, its inode forgotten again
  | some (u, g) =>
    let hdr2 : Entry := { ls.1 with uid := u, gid := g }
    if o.overlay then overlayP o st ls.2 path s hdr2 else emitP ls.2 path hdr2

/-- `tarAppender.addTarFile(path, name)`; an error means the entry is left out (logged) -/
def addTarFileP (o : PackOpts) (st : PackState) (path name : Str) : RProg PackState :=
  .call (.lstat path) (fun r => match r with
    | .stat s =>
      if s.kind == .sym then
        .call (.readlink path) (fun lr => match lr with
          | .str link => .call (.getxattr path capKey) (fun capR => afterStatP o st path name s link capR)
          | _ => .ret st)
      else .call (.getxattr path capKey) (fun capR => afterStatP o st path name s [] capR)
    | _ => .ret st)

/-- `getWalkRoot` -/
def getWalkRoot (src inc : Str) : Str := trimSuffix src slashStr ++ slashStr ++ inc

structure WalkSt where
  stack : List (Str × List Bool) := []     -- parentDirs / parentMatchInfo, top first
  skipDepth : Option Nat := none           -- depth of the directory whose walk was cut with SkipDir

def hasExclusions (o : PackOpts) : Bool := o.pats.any (·.excl)

inductive WalkAct where
  | skip (ws : WalkSt)                         -- nothing archived for this item
  | add (ws : WalkSt) (relp name : Str)        -- archive it under `name`, remember `relp` as seen

/-- is this item beneath a directory whose walk was cut with SkipDir -/
def skipping (sd : Option Nat) (depth : Nat) : Bool :=
  match sd with
  | some d => decide (depth > d)
  | none => false

/-- the exclusion verdict for `relp` with the ancestor stack, and the stack afterwards -/
def verdictOf (o : PackOpts) (inc relp : Str) (isDir : Bool) (ws : WalkSt) : Bool × WalkSt :=
  if inc ≠ relp then
    let stack1 := ws.stack.dropWhile (fun top => !hasPrefix relp (top.1 ++ slashStr))
    let parentInfo : List Bool := match stack1 with | top :: _ => top.2 | [] => []
    let (sk, info) := mur o.pats relp parentInfo
    (sk, { ws with stack := if isDir then (relp, info) :: stack1 else stack1 })
  else (false, ws)

/-- what happens to an item once its verdict is known: pruned, skipped, already seen, or archived -/
def walkFinish (o : PackOpts) (inc : Str) (depth : Nat) (isDir : Bool) (st : PackState) (relp : Str)
    (skip : Bool) (ws1 : WalkSt) : WalkAct :=
  if skip then
    if !isDir then .skip ws1
    else if !hasExclusions o then .skip { ws1 with skipDepth := some depth }
    else if o.pats.any (fun p => p.excl && hasPrefix (p.text ++ slashStr) (relp ++ slashStr)) then .skip ws1
    else .skip { ws1 with skipDepth := some depth }
  else if st.seenNames.contains relp then .skip ws1
  else
    let name : Str := match o.rebase.find? (fun x => x.1 = inc) with
      | some (_, r) =>
        if r = [] then relp
        else Copy.rebaseLeading relp inc (if r = slashStr then [] else r)
      | none => relp
    .add ws1 relp name

/-- the relative name the walk uses for an item (`./x` under IncludeSourceDir with include ".") -/
def relpOf (o : PackOpts) (inc rel0 : Str) : Str :=
  if o.includeSourceDir && inc = dot && rel0 ≠ dot then dot ++ slashStr ++ rel0 else rel0

/-- the decision part of the walk callback of `Tarballer.Do` for one visited item -/
def walkStep (o : PackOpts) (src inc filePath : Str) (kind : Kind) (depth : Nat) (ws0 : WalkSt) (st : PackState) :
    WalkAct :=
  if skipping ws0.skipDepth depth then .skip ws0
  else
    let ws : WalkSt := { ws0 with skipDepth := none }
    let isDir := kind == .dir
    match rel src filePath with
    | none => .skip ws
    | some rel0 =>
      if !o.includeSourceDir && rel0 = dot && isDir then .skip ws
      else
        let relp := relpOf o inc rel0
        let v := verdictOf o inc relp isDir ws
        walkFinish o inc depth isDir st relp v.1 v.2

/-- the walk callback of `Tarballer.Do` for one include over the pre-order listing -/
def walkP (o : PackOpts) (src inc : Str) : List (Str × Kind × Nat) → WalkSt → PackState → RProg PackState
  | [], _, st => .ret st
  | (filePath, kind, depth) :: rest, ws0, st =>
    match walkStep o src inc filePath kind depth ws0 st with
    | .skip ws => walkP o src inc rest ws st
    | .add ws relp name =>
      (addTarFileP o { st with seenNames := relp :: st.seenNames } filePath name).bind
        (fun st2 => walkP o src inc rest ws st2)

def includesP (o : PackOpts) (src : Str) : List Str → PackState → RProg PackState
  | [], st => .ret st
  | inc :: incs, st =>
    .call (.listTree (getWalkRoot src inc)) (fun t => match t with
      | .tree items => (walkP o src inc items {} st).bind (fun st1 => includesP o src incs st1)
      | _ => includesP o src incs st)

/-- `SplitPathDirEntry` -/
def splitPathDirEntry (path : Str) : Str × Str :=
  let c := clean path
  let c' := if base path = dot then c ++ slashStr ++ dot else c
  (dir c', base c')

/-- source directory and include list after `Tarballer.Do`'s adjustments -/
def srcAndIncludes (src : Str) (o : PackOpts) (s : StatInfo) : Str × List Str :=
  if s.kind != .dir then ((splitPathDirEntry src).1, [(splitPathDirEntry src).2])
  else (src, if o.includes.isEmpty then [dot] else o.includes)

/-- `Tarballer.Do` (after `NewTarballer`): the list of entries written to the stream -/
def tarR (src : Str) (o : PackOpts) : RProg (List Entry) :=
  .call (.lstat src) (fun r => match r with
    | .stat s =>
      (includesP o (srcAndIncludes src o s).1 (srcAndIncludes src o s).2 {}).bind (fun st => .ret st.out.reverse)
    | _ => .ret [])

/-- `Tarballer.Do` as a general program -/
def tarP (src : Str) (o : PackOpts) : Prog (List Entry) := (tarR src o).toProg

/-- `chrootarchive.Tar(srcPath, options, root)` : invokePack keeps a trailing slash, doPack jails the walk -/
def chrootTarP (src root : Str) (o : PackOpts) : Prog (Option (List Entry)) :=
  match resolvePathInChroot root src with
  | none => .ret none
  | some relSrc =>
    let relSrc := if hasSuffix src slashStr && !hasSuffix relSrc slashStr then relSrc ++ slashStr else relSrc
    jailedP root ((tarP relSrc o).bind (fun es => .ret (some es))) none

end GA
