import GA.K.Prog
import GA.Tar.Entry
import GA.M.IDMap
import GA.M.Copy
import GA.M.Unpack
/-
  Mechanism model of the producers (archive.go: Tarballer.Do, addTarFile, FileInfoHeader,
  ReadSecurityXattrToTarHeader, canonicalTarName; archive_linux.go: overlay ConvertWrite;
  chrootarchive: invokePack/doPack; changes.go: ExportChanges) as programs over layer K that
  emit a list of parsed entries.  The pattern matcher (moby/patternmatcher, outside /repo) is an
  abstract per-pattern predicate: text, exclusion flag and the set of paths its regexp matches.
-/
namespace GA

structure Pat where
  text : Str             -- cleaned pattern without the leading '!'
  excl : Bool            -- '!' pattern
  hits : List Str        -- the paths (among those the case can ask about) its compiled form matches
deriving Inhabited

structure PackOpts where
  includes : List Str := []
  includeSourceDir : Bool := false
  rebase : List (Str × Str) := []
  pats : List Pat := []
  uidMaps : List IDRange := []
  gidMaps : List IDRange := []
  chownOpts : Option (Nat × Nat) := none
  overlay : Bool := false
  opaqueXattr : Str := b!"trusted.overlay.opaque"
deriving Inhabited

def Pat.m (p : Pat) (path : Str) : Bool := p.hits.contains path

/-- the directory prefixes of a relative path: for "a/b/c" → ["a", "a/b"] -/
def parentPrefixes (path : Str) : List Str :=
  let cs := splitSlash (dir path)
  if dir path = dot then [] else (List.range cs.length).map (fun i => joinSlash (cs.take (i + 1)))

/-- `MatchesUsingParentResults(file, parentInfo)`; `parent = []` is the zero MatchInfo -/
def murLoop (file : Str) (parent : List Bool) : List Pat → Nat → Bool → List Bool → Bool × List Bool
  | [], _, matched, acc => (matched, acc.reverse)
  | p :: ps, i, matched, acc =>
    let pm : Bool := if parent.isEmpty then false else parent.getD i false
    if pm then murLoop file parent ps (i + 1) (!p.excl) (true :: acc)
    else if p.excl != matched then murLoop file parent ps (i + 1) matched (false :: acc)
    else
      let m0 := p.m file
      let m1 := if !m0 && parent.isEmpty then (parentPrefixes file).any p.m else m0
      murLoop file parent ps (i + 1) (if m1 then !p.excl else matched) (m1 :: acc)

def mur (pats : List Pat) (file : Str) (parent : List Bool) : Bool × List Bool :=
  murLoop file parent pats 0 false []

/-- `canonicalTarName` -/
def canonicalTarName (name : Str) (isDir : Bool) : Str :=
  if isDir && !hasSuffix name slashStr then name ++ slashStr else name

def typOfKind : Kind → Typ
  | .dir => .dir | .reg => .reg | .sym => .sym | .chr => .chr | .blk => .blk | .fifo => .fifo

/-- VFS_CAP_REVISION_3 (24 bytes, version byte 3) is rewritten to revision 2 (20 bytes) -/
def capForHeader (c : List UInt8) : List UInt8 :=
  if c.getD 3 0 = 3 then (c.set 3 2).take 20 else c

/-- stands for a modification time the kernel set implicitly (never compared) -/
def implicitT : Int := -9999999999999

structure PackState where
  seenNames : List Str := []
  seenInodes : List (Ino × Str) := []
  out : List Entry := []        -- reversed

def paxXattr (k : Str) : Str := k

/-- `tarAppender.addTarFile(path, name)`; `none` = the entry is left out (error logged) -/
def addTarFileP (o : PackOpts) (st : PackState) (path name : Str) : RProg PackState := do
  let r ← rsys (.lstat path)
  match r with
  | .stat s =>
    let linkR ← (if s.kind == .sym then rsys (.readlink path) else pure (.str []))
    match linkR with
    | .str link =>
      let capR ← rsys (.getxattr path capKey)
      let xattrs : List (Str × List UInt8) := match capR with
        | .data c => [(capKey, capForHeader c)]
        | _ => []
      let hdr0 : Entry := { typ := typOfKind s.kind, name := canonicalTarName name (s.kind == .dir), linkname := link,
                            mode := s.perm, uid := s.uid, gid := s.gid, mtime := (s.mtime.getD implicitT),
                            size := if s.kind == .reg then s.size else 0, xattrs := xattrs,
                            devmajor := if s.kind == .chr || s.kind == .blk then s.rdev.1 else 0,
                            devminor := if s.kind == .chr || s.kind == .blk then s.rdev.2 else 0 }
      -- hard links
      let (hdr1, st1) :=
        if s.kind != .dir && s.nlink > 1 then
          match st.seenInodes.find? (fun x => x.1 = s.ino) with
          | some (_, old) => ({ hdr0 with typ := .link, linkname := old, size := 0 }, st)
          | none => (hdr0, { st with seenInodes := (s.ino, name) :: st.seenInodes })
        else (hdr0, st)
      -- ownership: whiteouts keep their on-disk owner
      let isOverlayWhiteout := s.kind == .chr && hdr1.devmajor == 0 && hdr1.devminor == 0
      let opt : Opts := { uidMaps := o.uidMaps, gidMaps := o.gidMaps }
      let owner : Option (Nat × Nat) :=
        if !isOverlayWhiteout && !hasPrefix (base hdr1.name) whPrefix && !idMapEmpty opt then
          toContainerPair opt s.uid s.gid
        else some (hdr1.uid, hdr1.gid)
      match owner with
      | none => pure st1                      -- untranslatable owner: entry left out
      | some (u, g) =>
        let (u, g) := o.chownOpts.getD (u, g)
        let hdr2 : Entry := { hdr1 with uid := u, gid := g }
        if o.overlay then
          -- overlayWhiteoutConverter.ConvertWrite
          let hdr3 : Entry :=
            if isOverlayWhiteout then
              let sp := splitLast hdr2.name
              { hdr2 with name := join sp.1 (whPrefix ++ sp.2), mode := 0o600, typ := .reg, size := 0 }
            else hdr2
          if s.kind != .dir then
            emitP o st1 path hdr3
          else do
            let oq ← rsys (.getxattr path o.opaqueXattr)
            match oq with
            | .data v =>
              if v = [121] then
                let wo : Entry := { typ := .reg, mode := hdr3.mode &&& 0o777, name := join hdr3.name whOpaqueDir,
                                    size := 0, uid := hdr3.uid, gid := hdr3.gid, mtime := 0 }
                let hdr4 : Entry := { hdr3 with xattrs := hdr3.xattrs.filter (fun x => x.1 ≠ o.opaqueXattr) }
                pure { st1 with out := wo :: hdr4 :: st1.out }
              else emitP o st1 path hdr3
            | .err .ENODATA => emitP o st1 path hdr3
            | _ => pure st1                   -- lgetxattr error: entry left out
        else emitP o st1 path hdr2
    | _ => pure st
  | _ => pure st
where
  /-- write the header and, for a non-empty regular file, its body -/
  emitP (_o : PackOpts) (st : PackState) (path : Str) (hdr : Entry) : RProg PackState := do
    if hdr.typ == .reg && hdr.size > 0 then
      let d ← rsys (.readFile path)
      match d with
      | .data bytes => pure { st with out := { hdr with body := bytes } :: st.out }
      | _ => pure { st with out := hdr :: st.out }
    else pure { st with out := hdr :: st.out }

/-- `getWalkRoot` -/
def getWalkRoot (src inc : Str) : Str := trimSuffix src slashStr ++ slashStr ++ inc

structure WalkSt where
  stack : List (Str × List Bool) := []     -- parentDirs / parentMatchInfo, top first
  skipDepth : Option Nat := none           -- depth of the directory whose walk was cut with SkipDir

def hasExclusions (o : PackOpts) : Bool := o.pats.any (·.excl)

/-- the walk callback of `Tarballer.Do` for one include over the pre-order listing -/
def walkP (o : PackOpts) (src inc : Str) : List (Str × Kind × Nat) → WalkSt → PackState → RProg PackState
  | [], _, st => pure st
  | (filePath, kind, depth) :: rest, ws0, st =>
    if (match ws0.skipDepth with | some sd => decide (depth > sd) | none => false) then walkP o src inc rest ws0 st
    else
      let ws : WalkSt := { ws0 with skipDepth := none }
      let isDir := kind == .dir
      match rel src filePath with
      | none => walkP o src inc rest ws st
      | some rel0 =>
        if !o.includeSourceDir && rel0 = dot && isDir then walkP o src inc rest ws st
        else
          let relp := if o.includeSourceDir && inc = dot && rel0 ≠ dot then dot ++ slashStr ++ rel0 else rel0
          -- exclusion with the ancestor stack
          let (skip, ws1) : Bool × WalkSt :=
            if inc ≠ relp then
              let stack1 := ws.stack.dropWhile (fun top => !hasPrefix relp (top.1 ++ slashStr))
              let parentInfo : List Bool := match stack1 with | top :: _ => top.2 | [] => []
              let (sk, info) := mur o.pats relp parentInfo
              (sk, { ws with stack := if isDir then (relp, info) :: stack1 else stack1 })
            else (false, ws)
          if skip then
            if !isDir then walkP o src inc rest ws1 st
            else if !hasExclusions o then walkP o src inc rest { ws1 with skipDepth := some depth } st
            else if o.pats.any (fun p => p.excl && hasPrefix (p.text ++ slashStr) (relp ++ slashStr)) then
              walkP o src inc rest ws1 st
            else walkP o src inc rest { ws1 with skipDepth := some depth } st
          else if st.seenNames.contains relp then walkP o src inc rest ws1 st
          else
            let st1 := { st with seenNames := relp :: st.seenNames }
            let name : Str := match o.rebase.find? (fun x => x.1 = inc) with
              | some (_, r) =>
                if r = [] then relp
                else Copy.rebaseLeading relp inc (if r = slashStr then [] else r)
              | none => relp
            .bind (addTarFileP o st1 filePath name) (fun st2 => walkP o src inc rest ws1 st2)

def includesP (o : PackOpts) (src : Str) : List Str → PackState → RProg PackState
  | [], st => pure st
  | inc :: incs, st => do
    let t ← rsys (.listTree (getWalkRoot src inc))
    match t with
    | .tree items =>
      let st1 ← walkP o src inc items {} st
      includesP o src incs st1
    | _ => includesP o src incs st

/-- `SplitPathDirEntry` -/
def splitPathDirEntry (path : Str) : Str × Str :=
  let c := clean path
  let c' := if base path = dot then c ++ slashStr ++ dot else c
  (dir c', base c')

/-- `Tarballer.Do` (after `NewTarballer`): the list of entries written to the stream -/
def tarR (src : Str) (o : PackOpts) : RProg (List Entry) := do
  let r ← rsys (.lstat src)
  match r with
  | .stat s =>
    let (src1, incs) : Str × List Str :=
      if s.kind != .dir then
        let sp := splitPathDirEntry src
        (sp.1, [sp.2])
      else (src, if o.includes.isEmpty then [dot] else o.includes)
    let st ← includesP o src1 incs {}
    pure st.out.reverse
  | _ => pure []

/-- `Tarballer.Do` as a general program -/
def tarP (src : Str) (o : PackOpts) : Prog (List Entry) := (tarR src o).toProg

/-- `chrootarchive.Tar(srcPath, options, root)` : invokePack keeps a trailing slash, doPack jails the walk -/
def chrootTarP (src root : Str) (o : PackOpts) : Prog (Option (List Entry)) :=
  match resolvePathInChroot root src with
  | none => .ret none
  | some relSrc =>
    let relSrc := if hasSuffix src slashStr && !hasSuffix relSrc slashStr then relSrc ++ slashStr else relSrc
    jailedP root ((tarP relSrc o).bind (fun es => .ret (some es))) none

end GA
