import GA.M.TreeDiff
/-
  The sequential semantics of layer apply at the level of trees (a lexical specification): a deletion removes
  the path and everything beneath it; any other entry carries the new tree's metadata for its path, merges
  onto an existing directory when it is itself a directory, and otherwise replaces whatever was there
  together with everything beneath.  Plus executable checks of the hypotheses of `apply_changes_reproduces`
  (C04b), which the driver evaluates on the trees the library really collected.
-/
namespace GA.TreeDiff
open GA

abbrev View := List Str → Option Stat

/-- the lexical view of a tree: path below the root ↦ the compared metadata -/
def view (t : Info) : View := fun p => (findIn t.children p).map Info.st

def isDirAt (v : View) (q : List Str) : Bool :=
  match v q with
  | some o => o.isDir
  | none => false

/-- one exported change applied to a view; `nv` = the new tree (the entry carries its metadata) -/
def applyOne (nv : View) (v : View) (c : Change) : View :=
  match c.kind with
  | .delete => fun q => if c.path.isPrefixOf q then none else v q
  | _ =>
    match nv c.path with
    | none => v
    | some s =>
      if s.isDir && isDirAt v c.path then fun q => if q = c.path then some s else v q
      else fun q => if q = c.path then some s else if c.path.isPrefixOf q then none else v q

/-! ### executable checks (used by the driver on real trees) -/

def nodupB : List Str → Bool
  | [] => true
  | x :: xs => !xs.contains x && nodupB xs

mutual
/-- sibling names distinct at every level; only directories have children; the mode word carries the type -/
def Info.okB : Info → Bool
  | .mk _ st ch => nodupB (namesOf ch) && (st.isDir || ch.isEmpty) && (st.isDir == st.mode.testBit 31) && listOkB ch
def listOkB : List Info → Bool
  | [] => true
  | c :: cs => c.okB && listOkB cs
def namesOf : List Info → List Str
  | [] => []
  | c :: cs => (match c with | .mk n _ _ => n) :: namesOf cs
end

/-- the root of a collected tree carries no stat of its own (mode 0, counted as a directory): everything but the
    type bit is checked there -/
def Info.rootOkB : Info → Bool
  | .mk _ st ch => nodupB (namesOf ch) && (st.isDir || ch.isEmpty) && listOkB ch

mutual
/-- all relative paths of the nodes below a list of siblings -/
def pathsBelow (pre : List Str) : List Info → List (List Str)
  | [] => []
  | c :: cs => pathsOf pre c ++ pathsBelow pre cs
def pathsOf (pre : List Str) : Info → List (List Str)
  | .mk n _ ch => (pre ++ [n]) :: pathsBelow (pre ++ [n]) ch
end

def trackedB (x y : Stat) : Bool :=
  x.mode == y.mode && x.isDir == y.isDir && x.uid == y.uid && x.gid == y.gid && x.rdev == y.rdev && x.cap == y.cap &&
  (x.isDir || (x.size == y.size && x.mtimeSec == y.mtimeSec))

def eqvB : Option Stat → Option Stat → Bool
  | none, none => true
  | some x, some y => trackedB x y
  | _, _ => false

/-- applying `changes new old` to the view of `old` gives the view of `new` at every path of either tree -/
def reproducesB (new old : Info) : Bool :=
  let r := (changes new old).foldl (applyOne (view new)) (view old)
  (pathsBelow [] new.children ++ pathsBelow [] old.children).all (fun q => eqvB (r q) (view new q))

end GA.TreeDiff
