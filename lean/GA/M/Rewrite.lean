import GA.Tar.Entry
/-
  copy.go RebaseArchiveEntries and archive.go ReplaceFileTarWrapper on parsed streams:
  a stream is a list of entries followed by how it ends.
-/
namespace GA.Rewrite
open GA

inductive End where
  | eof                    -- clean end of archive
  | err (code : Nat)       -- the reader failed (custom error, truncation, …)
deriving DecidableEq, Repr

abbrev Stream := List Entry × End

/-- `if oldBase == "/" { oldBase = "" }` -/
def normOld (old : Str) : Str := if old = slashStr then [] else old

def rebaseEntry (old new : Str) (e : Entry) : Entry :=
  { e with name := replaceFirst e.name (normOld old) new,
           linkname := if e.typ == .link then replaceFirst e.linkname (normOld old) new else e.linkname }

/-- `RebaseArchiveEntries(src, oldBase, newBase)`: every entry read is written out renamed; the way the
    input ends is the way the output ends (`w.CloseWithError(err)` / `w.Close()`) -/
def rebaseM (old new : Str) (s : Stream) : Stream := (s.1.map (rebaseEntry old new), s.2)

/-- what a modifier callback does -/
inductive ModResult where
  | keep (hdr : Entry) (data : List UInt8)   -- header (Name "" = keep the path) and new content
  | drop                                      -- nil header: the entry disappears
  | fail (code : Nat)                         -- the callback returns an error

structure Modifier where
  name : Str
  /-- `some e` = called with the existing entry and its content, `none` = called with nil, nil -/
  run : Option Entry → ModResult

structure RState where
  out : List Entry := []            -- reversed
  mods : List Modifier              -- modifiers not yet used (the map, after `delete`)
  calls : List (Str × Bool) := []   -- log: (modifier name, called with an existing entry?)

def applyMod (st : RState) (m : Modifier) (orig : Option Entry) (path : Str) : Except Nat RState :=
  match m.run orig with
  | .fail c => .error c
  | .drop => .ok { st with calls := (m.name, orig.isSome) :: st.calls }
  | .keep h data =>
    let h' : Entry := { h with name := if h.name = [] then path else h.name, size := data.length, body := data }
    .ok { st with out := h' :: st.out, calls := (m.name, orig.isSome) :: st.calls }

def replaceLoop : List Entry → RState → Except Nat RState
  | [], st => .ok st
  | e :: es, st =>
    match st.mods.find? (fun m => m.name = e.name) with
    | none => replaceLoop es { st with out := e :: st.out }
    | some m =>
      match applyMod { st with mods := st.mods.filter (fun x => x.name ≠ e.name) } m (some e) e.name with
      | .error c => .error c
      | .ok st' => replaceLoop es st'

def leftovers : List Modifier → RState → Except Nat RState
  | [], st => .ok st
  | m :: ms, st =>
    match applyMod st m none m.name with
    | .error c => .error c
    | .ok st' => leftovers ms st'

/-- `ReplaceFileTarWrapper(in, mods)`; `order` is the iteration order of the leftover modifiers (a Go map) -/
def replaceM (mods : List Modifier) (order : List Modifier → List Modifier) (s : Stream) : Stream × List (Str × Bool) :=
  match replaceLoop s.1 { mods := mods } with
  | .error c => (([], .err c), [])          -- entries written so far are followed by the error
  | .ok st =>
    match s.2 with
    | .err c => ((st.out.reverse, .err c), st.calls.reverse)
    | .eof =>
      match leftovers (order st.mods) st with
      | .error c => ((st.out.reverse, .err c), st.calls.reverse)
      | .ok st' => ((st'.out.reverse, .eof), st'.calls.reverse)

end GA.Rewrite
