import GA.Tar.Entry
/-
  `moby/sys/user` identity mapping (outside /repo; modelled from its source, tied by correspondence):
  toHost / toContainer over range lists, `RootPair`, `ToHost` with its root-pair short-circuit.
-/
namespace GA

/-- `toHost(contID, idMap)`; `[]` is the nil map (identity) -/
def toHostRaw (m : List IDRange) (c : Nat) : Option Nat :=
  if m = [] then some c
  else match m.find? (fun r => r.cid ≤ c ∧ c < r.cid + r.count) with
    | some r => some (r.hid + (c - r.cid))
    | none => none

/-- `toContainer(hostID, idMap)` -/
def toContainerRaw (m : List IDRange) (h : Nat) : Option Nat :=
  if m = [] then some h
  else match m.find? (fun r => r.hid ≤ h ∧ h < r.hid + r.count) with
    | some r => some (r.cid + (h - r.hid))
    | none => none

/-- `IdentityMapping.RootPair()`; `none` stands for (-1, -1) -/
def rootPair (o : Opts) : Option (Nat × Nat) :=
  match toHostRaw o.uidMaps 0, toHostRaw o.gidMaps 0 with
  | some u, some g => some (u, g)
  | _, _ => none

/-- `IdentityMapping.ToHost(uid, gid)`; `none` = error -/
def toHostPair (o : Opts) (uid gid : Nat) : Option (Nat × Nat) :=
  let rp := rootPair o
  let ru : Option Nat :=
    if rp.map (·.1) = some uid then some uid else toHostRaw o.uidMaps uid
  match ru with
  | none => none
  | some u =>
    let rg : Option Nat :=
      if rp.map (·.2) = some gid then some gid else toHostRaw o.gidMaps gid
    rg.map (fun g => (u, g))

/-- `IdentityMapping.ToContainer(uid, gid)` -/
def toContainerPair (o : Opts) (uid gid : Nat) : Option (Nat × Nat) :=
  match toContainerRaw o.uidMaps uid, toContainerRaw o.gidMaps gid with
  | some u, some g => some (u, g)
  | _, _ => none

def idMapEmpty (o : Opts) : Bool := o.uidMaps.isEmpty && o.gidMaps.isEmpty

end GA
