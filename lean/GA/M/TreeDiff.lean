import GA.Go.Path
/-
  changes.go: `FileInfo.addChanges` / `Changes` — the recursive diff of two `FileInfo` trees — and
  changes_unix.go: `statDifferent`, changes.go: `sameFsTime`.
  A node's children are a list: its order stands for Go's map iteration order, so a statement
  proved for every list is proved for every iteration order.  Paths are component lists
  (`info.path()` is "/" + components joined by "/"; the driver renders them).
-/
namespace GA.TreeDiff
open GA

/-- the fields `statDifferent` and the capability comparison look at -/
structure Stat where
  mode : Nat            -- os.FileMode bits including the type
  isDir : Bool
  uid : Nat
  gid : Nat
  rdev : Nat
  size : Nat
  mtimeSec : Int
  mtimeNsec : Nat
  cap : List UInt8
deriving DecidableEq, Inhabited

/-- `sameFsTime`: equal, or equal seconds with one side carrying whole seconds only -/
def sameFsTime (s1 : Int) (n1 : Nat) (s2 : Int) (n2 : Nat) : Bool :=
  (s1 == s2 && n1 == n2) || (s1 == s2 && (n1 == 0 || n2 == 0))

/-- `statDifferent(old, new) || !bytes.Equal(old.capability, new.capability)` -/
def differs (o n : Stat) : Bool :=
  o.mode != n.mode || o.uid != n.uid || o.gid != n.gid || o.rdev != n.rdev ||
  (!o.isDir && (!sameFsTime o.mtimeSec o.mtimeNsec n.mtimeSec n.mtimeNsec || o.size != n.size)) ||
  o.cap != n.cap

inductive Info where
  | mk (name : Str) (st : Stat) (children : List Info)
deriving Inhabited

def Info.name : Info → Str
  | .mk n _ _ => n
def Info.st : Info → Stat
  | .mk _ s _ => s
def Info.children : Info → List Info
  | .mk _ _ c => c

inductive CKind where
  | modify | add | delete
deriving DecidableEq, Repr, Inhabited

structure Change where
  path : List Str
  kind : CKind
deriving DecidableEq, Inhabited

def findChild (olds : List Info) (n : Str) : Option Info := olds.find? (fun o => decide (o.name = n))
def dropChild (olds : List Info) (n : Str) : List Info := olds.filter (fun o => !decide (o.name = n))

/-- `isDir()`: parent == nil (the root, empty path) or the mode says directory -/
def dirAt (path : List Str) (st : Stat) : Bool := st.isDir || path.isEmpty

/-- the copy of the old children the loop works on: only when the new node counts as a directory -/
def oldKids (isDir : Bool) : Option Info → List Info
  | some o => if isDir then o.children else []
  | none => []

mutual
/-- `info.addChanges(oldInfo, changes)`: the segment this call appends.  `path` = info.path();
    `marked` = the caller already reported this node as modified (`info.added`) -/
def addChanges (path : List Str) : Info → Option Info → Bool → List Change
  | .mk _ st ch, old, marked =>
    let isDir := dirAt path st
    let oldCh : List Info := oldKids isDir old
    let seg := (if old.isNone then [{ path := path, kind := .add }] else []) ++ childChanges path ch oldCh
    if !seg.isEmpty && isDir && !(marked || old.isNone) && !path.isEmpty
    then { path := path, kind := .modify } :: seg
    else seg
/-- the two loops over the children: new children against the copy of the old ones, then what is left -/
def childChanges (path : List Str) : List Info → List Info → List Change
  | [], olds => olds.map (fun o => { path := path ++ [o.name], kind := .delete })
  | c :: cs, olds =>
    match findChild olds c.name with
    | some o =>
      let d := differs o.st c.st
      (if d then [{ path := path ++ [c.name], kind := .modify }] else []) ++
        addChanges (path ++ [c.name]) c (some o) d ++ childChanges path cs (dropChild olds c.name)
    | none => addChanges (path ++ [c.name]) c none false ++ childChanges path cs olds
end

/-- look a relative path up below a list of siblings -/
def findIn : List Info → List Str → Option Info
  | _, [] => none
  | l, [c] => findChild l c
  | l, c :: c2 :: r => match findChild l c with
    | some n => findIn n.children (c2 :: r)
    | none => none

/-- `newRoot.Changes(oldRoot)` -/
def changes (new old : Info) : List Change := addChanges [] new (some old) false

end GA.TreeDiff
