import GA.K.FS
/-
  changes_linux.go: `parseDirent` on raw getdents64 buffers, `readdirnames` over any chunking of the
  record stream, and the sorted three-way merge with inode pruning of `walker.walk`.
-/
namespace GA.Changes
open GA

/-- little-endian value of a byte list -/
def leNat : List UInt8 → Nat
  | [] => 0
  | b :: bs => b.toNat + 256 * leNat bs

/-- `clen` + string(): the bytes up to the first NUL -/
def cstr (bs : List UInt8) : Str := bs.takeWhile (· ≠ 0)

/-- one `linux_dirent64` header: d_ino (8), d_off (8), d_reclen (2), d_type (1), then the name -/
def direntIno (buf : List UInt8) : Nat := leNat (buf.take 8)
def direntReclen (buf : List UInt8) : Nat := leNat ((buf.drop 16).take 2)
def direntName (buf : List UInt8) : Str := cstr (buf.drop 19)

/-- `parseDirent(buf, names)`: (bytes consumed, names appended); `fuel` bounds the loop (the Go loop
    makes no progress on reclen = 0, which the kernel never produces: the model stops there) -/
def parseDirent : Nat → List UInt8 → List (Str × Nat) → Nat × List (Str × Nat)
  | 0, _, acc => (0, acc)
  | fuel+1, buf, acc =>
    if buf = [] then (0, acc)
    else
      let rl := direntReclen buf
      if rl = 0 ∨ rl > buf.length then (0, acc)
      else
        let rest := buf.drop rl
        let ino := direntIno buf
        let name := direntName buf
        let acc' := if ino = 0 ∨ name = dot ∨ name = dotdot then acc else acc ++ [(name, ino)]
        let r := parseDirent fuel rest acc'
        (rl + r.1, r.2)

/-- encode one record (name NUL-terminated, padded to `pad` bytes ≥ 19 + |name| + 1) -/
def leBytes : Nat → Nat → List UInt8
  | 0, _ => []
  | k+1, n => UInt8.ofNat (n % 256) :: leBytes k (n / 256)

def encodeRec (ino : Nat) (name : Str) (pad : Nat) : List UInt8 :=
  leBytes 8 ino ++ leBytes 8 0 ++ leBytes 2 (19 + name.length + 1 + pad) ++ [8] ++ name ++ [0] ++ List.replicate pad 0

/-- `readdirnames`: parse buffer after buffer, then sort by name -/
def readdirnames (chunks : List (List UInt8)) : List (Str × Nat) :=
  let all := chunks.foldl (fun acc c => (parseDirent c.length c acc).2) []
  let rec ins (x : Str × Nat) : List (Str × Nat) → List (Str × Nat)
    | [] => [x]
    | y :: ys => if strLt x.1 y.1 then x :: y :: ys else y :: ins x ys
  all.foldr ins []

/-- the three-way merge of `walker.walk`: names present on either side, except a name present on
    both sides with the same inode on the same device (pruned) -/
def mergeNames (sameDev : Bool) : Nat → List (Str × Nat) → List (Str × Nat) → List Str
  | 0, _, _ => []
  | _, [], b => b.map (·.1)
  | _, a, [] => a.map (·.1)
  | fuel+1, x :: xs, y :: ys =>
    if strLt x.1 y.1 then x.1 :: mergeNames sameDev fuel xs (y :: ys)
    else if strLt y.1 x.1 then y.1 :: mergeNames sameDev fuel (x :: xs) ys
    else if x.2 ≠ y.2 ∨ !sameDev then x.1 :: mergeNames sameDev fuel xs ys
    else mergeNames sameDev fuel xs ys

end GA.Changes
