import GA.Generated.Facts
/-
  compression/compression_detect.go `Detect` over the regenerated magic tables, the sniffing
  step of `DecompressStream`, and the pooled `bufferedReader` as a state machine.
-/
namespace GA.Compress
open GA

def table : List (Nat × Option (List UInt8)) := Facts.detectTable?.getD []
def order : List Nat := Facts.detectOrder?.getD []
def cNone : Nat := Facts.compressionNone?.getD 0
def zstdMagic : List UInt8 := Facts.zstdMagic?.getD []
def skipStart : Nat := Facts.zstdMagicSkippableStart?.getD 0
def skipMask : Nat := Facts.zstdMagicSkippableMask?.getD 0

/-- `binary.LittleEndian.Uint32` of the first four bytes -/
def le32 : List UInt8 → Nat
  | a :: b :: c :: d :: _ => a.toNat + 256 * b.toNat + 65536 * c.toNat + 16777216 * d.toNat
  | _ => 0

/-- `zstdMatcher` -/
def zstdMatch (src : List UInt8) : Bool :=
  zstdMagic.isPrefixOf src || (decide (8 ≤ src.length) && (le32 src &&& skipMask) == skipStart)

def matcher (m : Option (List UInt8)) (src : List UInt8) : Bool :=
  match m with
  | some magic => magic.isPrefixOf src
  | none => zstdMatch src

/-- `Detect` with the formats tried in the given order -/
def detectWith (ord : List Nat) (src : List UInt8) : Nat :=
  match ord.find? (fun c => match table.find? (fun e => e.1 = c) with
                            | some e => matcher e.2 src
                            | none => false) with
  | some c => c
  | none => cNone

def detect (src : List UInt8) : Nat := detectWith order src

/-- the sniffing step of `DecompressStream`: Peek(10) (a short stream yields what there is) -/
def sniff (s : List UInt8) : Nat := detect (s.take 10)

/-- `DecompressStream` then read to the end, with the codecs as a parameter (trusted base) -/
def decompressM (codec : Nat → List UInt8 → Option (List UInt8)) (s : List UInt8) : Option (List UInt8) :=
  if sniff s = cNone then some s else codec (sniff s) s

/-! ### bufferedReader: the pooled buffer is returned exactly once -/

structure BR where
  hasBuf : Bool
  rest : List UInt8       -- bytes of the underlying reader not yet delivered
  puts : Nat              -- how many times the buffer went back to the pool
  touchedAfterPut : Bool  -- did any operation use the buffer after it was returned

inductive BROp where
  | read (n : Nat)
  | peek (n : Nat)

def BR.init (src : List UInt8) : BR := { hasBuf := true, rest := src, puts := 0, touchedAfterPut := false }

/-- one call; returns the bytes delivered and whether the call reported EOF -/
def BR.step (b : BR) : BROp → (List UInt8 × Bool) × BR
  | .read n =>
    if !b.hasBuf then (([], true), b)
    else if b.rest = [] then (([], true), { b with hasBuf := false, puts := b.puts + 1 })
    else ((b.rest.take (max n 1), false), { b with rest := b.rest.drop (max n 1) })
  | .peek n =>
    if !b.hasBuf then (([], true), b)
    else ((b.rest.take n, decide (b.rest.length < n)), b)

def BR.run (b : BR) : List BROp → List UInt8 × BR
  | [] => ([], b)
  | op :: ops =>
    let r := b.step op
    let (out, b') := BR.run r.2 ops
    (match op with | .read _ => r.1.1 ++ out | .peek _ => out, b')

end GA.Compress
