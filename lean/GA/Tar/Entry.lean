import GA.Go.Path
/-
  Parsed tar entries and extraction options: what `archive/tar`'s reader hands to the library.
  The byte encoding is `archive/tar`'s business (trusted base); the model works on entries.
-/
namespace GA

inductive Typ where
  | reg | link | sym | chr | blk | dir | fifo | xglobal | other
deriving DecidableEq, Repr, Inhabited

structure Entry where
  typ : Typ
  name : Str
  linkname : Str := []
  mode : Nat := 0o644            -- hdr.Mode & 07777
  uid : Nat := 0
  gid : Nat := 0
  mtime : Int := 0               -- seconds
  size : Nat := 0                -- declared size
  body : List UInt8 := []        -- bytes actually present (shorter than `size` = truncated stream)
  xattrs : List (Str × List UInt8) := []   -- PAX SCHILY.xattr.* records
  devmajor : Nat := 0
  devminor : Nat := 0
deriving Inhabited

structure IDRange where
  cid : Nat       -- container id (ID)
  hid : Nat       -- host id (ParentID)
  count : Nat
deriving DecidableEq, Repr, Inhabited

structure Opts where
  noLchown : Bool := false
  chownOpts : Option (Nat × Nat) := none
  uidMaps : List IDRange := []       -- [] = nil slice = identity
  gidMaps : List IDRange := []
  noOverwriteDirNonDir : Bool := false
  excludes : List Str := []
  overlay : Bool := false
  inUserNS : Bool := false
  bestEffortXattrs : Bool := false
deriving Inhabited

/-- outcome class of an extraction call -/
inductive Out where
  | ok
  | breakout
  | err
deriving DecidableEq, Repr, Inhabited

def minT : Int := 0
def maxT : Int := 9223372036

/-- `boundTime` on whole seconds -/
def boundTime (t : Int) : Int := if t < minT ∨ t > maxT then minT else t

end GA
