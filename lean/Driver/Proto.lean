import GA.M.Unpack
import GA.M.Pack
import GA.M.Export
import GA.M.TreeDiff
import GA.M.TreeApply
/-
  Line protocol for filesystem cases (DESIGN A.7).
    case    := op SP opts SP dest SP root SP umask SP "T" n node* SP "E" m entry*
    node    := path kind perm uid gid mtime data target maj min group cap
    entry   := typ name linkname mode uid gid mtime size body maj min nx (k v)*
    outcome := out SP size SP "T" n node*
  strings hex-encoded ("-" = empty); mtime "*" = implicit.
-/
open GA

abbrev P := StateT (List String) Option

def tok : P String := do
  let s ← get
  match s with
  | [] => failure
  | x :: xs => set xs; pure x

def pNat : P Nat := do
  let t ← tok
  match t.toNat? with
  | some n => pure n
  | none => failure

def pInt : P Int := do
  let t ← tok
  match t.toInt? with
  | some n => pure n
  | none => failure

def pStr : P Str := do
  let t ← tok
  match strOfHex t with
  | some s => pure s
  | none => failure

def pMany {α} (p : P α) : Nat → P (List α)
  | 0 => pure []
  | n+1 => do
    let x ← p
    let xs ← pMany p n
    pure (x :: xs)

def pKind : P Kind := do
  let t ← tok
  match t with
  | "d" => pure .dir | "r" => pure .reg | "s" => pure .sym
  | "c" => pure .chr | "b" => pure .blk | "f" => pure .fifo
  | _ => failure

structure NodeSpec where
  path : Str
  kind : Kind
  perm : Nat
  uid : Nat
  gid : Nat
  mtime : Option Int
  data : Str
  target : Str
  maj : Nat
  min : Nat
  group : Nat
  cap : Str
  opq : Bool

def pNode : P NodeSpec := do
  let path ← pStr
  let kind ← pKind
  let perm ← pNat
  let uid ← pNat
  let gid ← pNat
  let mt ← tok
  let mtime : Option Int := if mt = "*" then none else mt.toInt?
  let data ← pStr
  let target ← pStr
  let maj ← pNat
  let min ← pNat
  let group ← pNat
  let capT ← tok
  let (capHex, opq) := match capT.splitOn "~" with
    | [c, "o"] => (c, true)
    | _ => (capT, false)
  let cap ← (match strOfHex capHex with | some c => pure c | none => failure : P Str)
  pure { path, kind, perm, uid, gid, mtime, data, target, maj, min, group, cap, opq }

def pTyp : P Typ := do
  let t ← tok
  match t with
  | "reg" => pure .reg | "link" => pure .link | "sym" => pure .sym | "chr" => pure .chr
  | "blk" => pure .blk | "dir" => pure .dir | "fifo" => pure .fifo | "xglobal" => pure .xglobal
  | _ => pure .other

def pEntry : P Entry := do
  let typ ← pTyp
  let name ← pStr
  let linkname ← pStr
  let mode ← pNat
  let uid ← pNat
  let gid ← pNat
  let mtime ← pInt
  let size ← pNat
  let body ← pStr
  let devmajor ← pNat
  let devminor ← pNat
  let nx ← pNat
  let xs ← pMany (do let k ← pStr; let v ← pStr; pure (k, v)) nx
  pure { typ, name, linkname, mode, uid, gid, mtime, size, body, xattrs := xs, devmajor, devminor }

def parseRanges (s : String) : List IDRange :=
  (s.splitOn ";").filterMap fun r =>
    match (r.splitOn ":").map String.toNat? with
    | [some c, some h, some n] => some { cid := c, hid := h, count := n }
    | _ => none

def parseOpts (s : String) : Opts :=
  if s = "-" then {} else
  (s.splitOn ",").foldl (fun (o : Opts) kv =>
    match kv.splitOn "=" with
    | ["noLchown", _] => { o with noLchown := true }
    | ["chown", v] => match (v.splitOn ":").map String.toNat? with
        | [some u, some g] => { o with chownOpts := some (u, g) }
        | _ => o
    | ["noOverwrite", _] => { o with noOverwriteDirNonDir := true }
    | ["excl", v] => { o with excludes := (v.splitOn ";").filterMap strOfHex }
    | ["uidmap", v] => { o with uidMaps := parseRanges v }
    | ["gidmap", v] => { o with gidMaps := parseRanges v }
    | ["userns", _] => { o with inUserNS := true }
    | ["best", _] => { o with bestEffortXattrs := true }
    | ["overlay", _] => { o with overlay := true }
    | _ => o) {}

/-- absolute path string → component path -/
def compsOfStr (s : Str) : Path := pathComps s

def ensureDirs (fs : FS) (p : Path) : FS :=
  (List.range (p.length + 1)).foldl (fun fs k =>
    let q := p.take k
    if (fs.lookup q).isSome then fs
    else fs.create q { kind := .dir, perm := 0o755, uid := 0, gid := 0, mtime := some 0 }) fs

/-- build the initial filesystem from node specs (parents are created as 0755 root dirs if not listed) -/
def buildFS (nodes : List NodeSpec) : FS :=
  let (fs, _) := nodes.foldl (fun (acc : FS × List (Nat × Ino)) nd =>
    let (fs, groups) := acc
    let p := compsOfStr nd.path
    let fs := ensureDirs fs p.dropLast
    let ino : Inode := { kind := nd.kind, perm := nd.perm, uid := nd.uid, gid := nd.gid, mtime := nd.mtime,
                         data := nd.data, target := nd.target, rdev := (nd.maj, nd.min),
                         xattrs := (if nd.cap = [] then [] else [(capKey, nd.cap)]) ++
                                   (if nd.opq then [(opaqueKey, [121])] else []) }
    match fs.lookup p with
    | some i => (fs.setInode i ino, groups)          -- listed after being auto-created
    | none =>
      match (if nd.group = 0 then none else groups.find? (fun g => g.1 = nd.group)) with
      | some (_, i) => ({ fs with names := fs.names ++ [(p, i)] }, groups)
      | none =>
        let i := fs.next
        let fs' : FS := { names := fs.names ++ [(p, i)],
                          inode := fun j => if j = i then some ino else fs.inode j, next := i + 1 }
        (fs', if nd.group = 0 then groups else (nd.group, i) :: groups)) (FS.empty, [])
  fs

def renderPath (p : Path) : Str := 47 :: joinSlash p

def kindChar : Kind → String
  | .dir => "d" | .reg => "r" | .sym => "s" | .chr => "c" | .blk => "b" | .fifo => "f"

def insertBy {α} (lt : α → α → Bool) (x : α) : List α → List α
  | [] => [x]
  | y :: ys => if lt x y then x :: y :: ys else y :: insertBy lt x ys

def sortBy {α} (lt : α → α → Bool) (xs : List α) : List α := xs.foldr (insertBy lt) []

/-- canonical rendering of everything under `top` (sorted by path, hard-link groups renumbered) -/
def renderFS (fs : FS) (top : Path) : String :=
  let ns := (fs.names.filter (fun e => under top e.1 && e.1 ≠ top)).map (fun e => (renderPath e.1, e.2))
  let ns := sortBy (fun a b => strLt a.1 b.1) ns
  let (_, _, out) := ns.foldl (fun (acc : List (Ino × Nat) × Nat × List String) e =>
    let (groups, nextG, out) := acc
    match fs.inode e.2 with
    | none => (groups, nextG, out)
    | some n =>
      let shared := (ns.filter (fun x => x.2 = e.2)).length > 1 && n.kind != .dir
      let (g, groups, nextG) :=
        if !shared then (0, groups, nextG)
        else match groups.find? (fun x => x.1 = e.2) with
          | some (_, g) => (g, groups, nextG)
          | none => (nextG, (e.2, nextG) :: groups, nextG + 1)
      let mt := match n.mtime with | some t => toString t | none => "*"
      let cap := (match n.xattrs.find? (fun x => x.1 = capKey) with | some x => showStr x.2 | none => "-") ++
        (match n.xattrs.find? (fun x => x.1 = opaqueKey) with | some x => if x.2 = [121] then "~o" else "" | none => "")
      let line := String.intercalate " " [showStr e.1, kindChar n.kind, toString n.perm, toString n.uid,
        toString n.gid, mt, (if n.kind == .reg then showStr n.data else "-"),
        (if n.kind == .sym then showStr n.target else "-"),
        toString (if n.kind == .chr || n.kind == .blk then n.rdev.1 else 0),
        toString (if n.kind == .chr || n.kind == .blk then n.rdev.2 else 0), toString g, cap]
      (groups, nextG, line :: out)) ([], 1, [])
  let lines := out.reverse
  "T " ++ toString lines.length ++ (if lines.isEmpty then "" else " " ++ String.intercalate " " lines)

def showOut : Out → String
  | .ok => "ok" | .breakout => "breakout" | .err => "err"

structure FsCase where
  op : String
  opts : Opts
  dest : Str
  root : Str
  umask : Nat
  nodes : List NodeSpec
  entries : List Entry

def pCase : P FsCase := do
  let op ← tok
  let o ← tok
  let dest ← pStr
  let root ← pStr
  let umask ← pNat
  let t ← tok
  if t ≠ "T" then failure
  let n ← pNat
  let nodes ← pMany pNode n
  let e ← tok
  if e ≠ "E" then failure
  let m ← pNat
  let entries ← pMany pEntry m
  pure { op, opts := parseOpts o, dest, root, umask, nodes, entries }

def worldTop : Path := [b!"w"]

def runFsCase (c : FsCase) : String :=
  let fs := buildFS c.nodes
  let fs := ensureDirs fs worldTop
  let w : World := { fs := fs, root := [], umask := c.umask }
  match c.op with
  | "untar" =>
    let (out, w') := (untarP c.dest c.opts c.entries).run w
    showOut out ++ " 0 " ++ renderFS w'.fs worldTop
  | "layer" =>
    let ((out, sz), w') := (applyLayerP c.dest c.opts c.entries c.umask).run w
    showOut out ++ " " ++ toString sz ++ " " ++ renderFS w'.fs worldTop
  | "untar-chroot" =>
    let (out, w') := (chrootUntarP c.dest c.root c.opts c.entries).run w
    showOut out ++ " 0 " ++ renderFS w'.fs worldTop
  | "layer-chroot" =>
    let ((out, sz), w') := (chrootApplyLayerP c.dest c.opts c.entries).run w
    showOut out ++ " " ++ toString sz ++ " " ++ renderFS w'.fs worldTop
  | _ => "bad-op"

def handleFs (ws : List String) : String :=
  match (pCase.run ws) with
  | some (c, _) => runFsCase c
  | none => "bad-case"

/-! ### pack cases -/

def parsePat (s : String) : Option Pat :=
  match s.splitOn ":" with
  | [e, t, hs] => do
    let text ← strOfHex t
    let hits := if hs = "" then [] else (hs.splitOn "|").filterMap strOfHex
    pure { text := text, excl := e = "1", hits := hits }
  | _ => none

def parseRebase (kv : String) : Option (Str × Str) :=
  match kv.splitOn ":" with
  | [k, r] => match strOfHex k, strOfHex r with
    | some a, some b => some (a, b)
    | _, _ => none
  | _ => none

def parsePackOpts (s : String) : PackOpts :=
  if s = "-" then {} else
  (s.splitOn ",").foldl (fun (o : PackOpts) kv =>
    match kv.splitOn "=" with
    | ["inc", v] => { o with includes := (v.splitOn ";").filterMap strOfHex }
    | ["isd", _] => { o with includeSourceDir := true }
    | ["rebase", v] => { o with rebase := (v.splitOn ";").filterMap parseRebase }
    | ["pats", v] => { o with pats := (v.splitOn ";").filterMap parsePat }
    | ["uidmap", v] => { o with uidMaps := parseRanges v }
    | ["gidmap", v] => { o with gidMaps := parseRanges v }
    | ["chown", v] => match (v.splitOn ":").map String.toNat? with
        | [some u, some g] => { o with chownOpts := some (u, g) }
        | _ => o
    | ["overlay", _] => { o with overlay := true }
    | _ => o) {}

def showTyp : Typ → String
  | .reg => "reg" | .link => "link" | .sym => "sym" | .chr => "chr" | .blk => "blk" | .dir => "dir"
  | .fifo => "fifo" | .xglobal => "xglobal" | .other => "other"

def renderEntry (e : Entry) : String :=
  String.intercalate " " ([showTyp e.typ, showStr e.name, showStr e.linkname, toString e.mode, toString e.uid,
    toString e.gid, (if e.mtime = implicitT then "*" else toString e.mtime), toString e.size, showStr e.body, toString e.devmajor, toString e.devminor,
    toString e.xattrs.length] ++ e.xattrs.flatMap (fun x => [showStr x.1, showStr x.2]))

def renderEntries (es : List Entry) : String :=
  "E " ++ toString es.length ++ (if es.isEmpty then "" else " " ++ String.intercalate " " (es.map renderEntry))

structure PackCase where
  op : String
  opts : PackOpts
  src : Str
  root : Str
  nodes : List NodeSpec

def pPackCase : P PackCase := do
  let op ← tok
  let o ← tok
  let src ← pStr
  let root ← pStr
  let _ ← pNat
  let t ← tok
  if t ≠ "T" then failure
  let n ← pNat
  let nodes ← pMany pNode n
  pure { op, opts := parsePackOpts o, src, root, nodes }

def handlePack (ws : List String) : String :=
  match pPackCase.run ws with
  | some (c, _) =>
    let fs := ensureDirs (buildFS c.nodes) worldTop
    let w : World := { fs := fs, root := [], umask := 0o022 }
    if c.op = "tar" then
      let (es, _) := (tarP c.src c.opts).run w
      "ok " ++ renderEntries es
    else if c.op = "tar-chroot" then
      match (chrootTarP c.src c.root c.opts).run w with
      | (some es, _) => "ok " ++ renderEntries es
      | (none, _) => "err E 0"
    else "bad-op"
  | none => "bad-case"
/-! ### export cases:  export <opts> <dir> <unused> <umask> T n nodes…  C m (path kind)… -/

def pChange : P Change := do
  let path ← pStr
  let k ← tok
  match k with
  | "m" => pure { path, kind := .modify }
  | "a" => pure { path, kind := .add }
  | "d" => pure { path, kind := .delete }
  | _ => failure

def handleExport (ws : List String) : String :=
  let p : P (PackCase × List Change) := do
    let c ← pPackCase
    let t ← tok
    if t ≠ "C" then failure
    let m ← pNat
    let cs ← pMany pChange m
    pure (c, cs)
  match p.run ws with
  | some ((c, cs), _) =>
    let fs := ensureDirs (buildFS c.nodes) worldTop
    let w : World := { fs := fs, root := [], umask := 0o022 }
    let (es, _) := (exportP c.src cs c.opts.uidMaps c.opts.gidMaps implicitT).run w
    "ok " ++ renderEntries es
  | none => "bad-case"

/-! ### tree diff cases:  changes <old tree> <new tree>
    tree := N name mode isDir uid gid rdev size msec mnsec cap nchildren child… (pre-order) -/

def pBool : P Bool := do
  let t ← tok
  match t with
  | "1" => pure true
  | "0" => pure false
  | _ => failure

def pTree : Nat → P TreeDiff.Info
  | 0 => failure
  | fuel+1 => do
    let t ← tok
    if t ≠ "N" then failure
    let name ← pStr
    let mode ← pNat
    let isDir ← pBool
    let uid ← pNat
    let gid ← pNat
    let rdev ← pNat
    let size ← pNat
    let msec ← pInt
    let mnsec ← pNat
    let cap ← pStr
    let n ← pNat
    let kids ← pMany (pTree fuel) n
    pure (.mk name { mode, isDir, uid, gid, rdev, size, mtimeSec := msec, mtimeNsec := mnsec, cap } kids)

def showKind : TreeDiff.CKind → String
  | .modify => "C" | .add => "A" | .delete => "D"

def handleChanges (ws : List String) : String :=
  let p : P (TreeDiff.Info × TreeDiff.Info) := do
    let _ ← tok
    let o ← pTree ws.length
    let n ← pTree ws.length
    pure (o, n)
  match p.run ws with
  | some ((o, n), _) =>
    let cs := TreeDiff.changes n o
    let b := fun (x : Bool) => if x then "1" else "0"
    "ok " ++ toString cs.length ++ String.join (cs.map (fun c =>
      " " ++ showKind c.kind ++ showStr (47 :: joinSlash c.path))) ++
      -- the hypotheses of C04b.apply_changes_reproduces evaluated on these trees (`okB_sound`)
      " H" ++ b n.rootOkB ++ b o.rootOkB
  | none => "bad-case"

