import GA.Go.Path
import Driver.Proto
import GA.M.Compress
import GA.M.Unshare
import GA.M.Rewrite
import GA.M.Changes
/-
  Line-protocol driver: one case per line on stdin, one canonical outcome per
  line on stdout.  Core-only imports, so it links as a native executable.
-/
open GA

def argStr (xs : List String) (i : Nat) : Option Str := (xs[i]?).bind strOfHex

def showOpt : Option Str → String
  | none => "ERR"
  | some s => "OK " ++ showStr s

def handle (line : String) : String :=
  let ws := (line.splitOn " ").filter (· ≠ "")
  match ws with
  | "clean" :: a :: _ => match strOfHex a with
      | some s => showOpt (some (clean s)) | none => "bad-op"
  | "join" :: a :: b :: _ => match strOfHex a, strOfHex b with
      | some x, some y => showOpt (some (join x y)) | _, _ => "bad-op"
  | "rel" :: a :: b :: _ => match strOfHex a, strOfHex b with
      | some x, some y => showOpt (rel x y) | _, _ => "bad-op"
  | "dir" :: a :: _ => match strOfHex a with
      | some s => showOpt (some (dir s)) | none => "bad-op"
  | "base" :: a :: _ => match strOfHex a with
      | some s => showOpt (some (base s)) | none => "bad-op"
  | "split" :: a :: _ => match strOfHex a with
      | some s => "OK " ++ showStr (splitLast s).1 ++ " " ++ showStr (splitLast s).2 | none => "bad-op"
  | "detect" :: a :: _ => match strOfHex a with
      | some s => "OK " ++ toString (GA.Compress.detect s) ++ " " ++ toString (GA.Compress.sniff s) | none => "bad-op"
  | "unshare" :: fl :: un :: su :: _ => match fl.toNat? with
      | some flags =>
        let c := GA.Unshare.goM flags ⟨fun _ => true, un = "1", su = "1", fun _ => true⟩
        "OK released=" ++ toString c.released ++ " fn=" ++ toString c.fnRan ++ " err=" ++ toString c.err
      | none => "bad-op"
  | "idmap" :: which :: um :: gm :: u :: g :: _ =>
      match u.toNat?, g.toNat? with
      | some uid, some gid =>
        let o : Opts := { uidMaps := if um = "-" then [] else parseRanges um, gidMaps := if gm = "-" then [] else parseRanges gm }
        let show2 : Option (Nat × Nat) → String := fun r => match r with
          | some (a, b) => "OK " ++ toString a ++ " " ++ toString b | none => "ERR"
        if which = "tohost" then show2 (toHostPair o uid gid)
        else if which = "tocontainer" then show2 (toContainerPair o uid gid)
        else if which = "rootpair" then show2 (rootPair o)
        else "bad-op"
      | _, _ => "bad-op"
  | "rebase" :: old :: new :: "E" :: n :: rest =>
      match strOfHex old, strOfHex new, n.toNat? with
      | some o, some nw, some k =>
        match (pMany pEntry k).run rest with
        | some (es, _) => "ok " ++ renderEntries (GA.Rewrite.rebaseM o nw (es, .eof)).1
        | none => "bad-case"
      | _, _, _ => "bad-op"
  | "dirent" :: a :: _ => match strOfHex a with
      | some buf =>
        let r := GA.Changes.parseDirent buf.length buf []
        "OK " ++ toString r.1 ++ " " ++ toString r.2.length ++ String.join (r.2.map fun x => " " ++ showStr x.1 ++ ":" ++ toString x.2)
      | none => "bad-op"
  | "within" :: a :: b :: _ => match strOfHex a, strOfHex b with
      | some x, some y => if isWithin x y then "OK 01" else "OK 00" | _, _ => "bad-op"
  | op :: _ => if op = "untar" ∨ op = "layer" ∨ op = "untar-chroot" ∨ op = "layer-chroot" then handleFs ws else if op = "tar" ∨ op = "tar-chroot" then handlePack ws else if op = "export" then handleExport ws else if op = "changes" then handleChanges ws else "bad-op"
  | _ => "bad-op"

partial def loop (h : IO.FS.Stream) (out : IO.FS.Stream) : IO Unit := do
  let line ← h.getLine
  if line.isEmpty then return ()
  let l := line.trimAscii.toString
  out.putStrLn (handle l)
  loop h out

def main : IO Unit := do
  let out ← IO.getStdout
  loop (← IO.getStdin) out
  out.flush
