import GA.Go.Str
import GA.Go.Path
