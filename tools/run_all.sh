#!/bin/sh
# run every registered check (quick by default) and print one line each
tier=${1:-quick}
cd /verif
for id in $(python3 -c "import json; print(' '.join(sorted(json.load(open('checks.json')).keys())))"); do
  n=$(python3 -c "import json; print(len(json.load(open('checks.json'))['$id']['theorems']))")
  [ "$n" = "0" ] && continue
  out=$(./check $id --tier $tier 2>&1 | grep -E "^(check|VIOLATION|KNOWN)" | tr '\n' ' ')
  echo "$id: $out"
done
