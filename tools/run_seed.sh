#!/bin/sh
# run_seed.sh <seed-dir-name> <check-id> [tier]: apply a seeded defect to a SCRATCH copy of /repo
# (worktree under /tmp/seedrun) and run the check against it via VERIF_REPO. /repo itself is untouched.
seed=$1; id=$2; tier=${3:-quick}
cd /verif
wt=/tmp/seedrun/$seed.$id.$$
mkdir -p /tmp/seedrun
git -C /repo worktree add -q --detach $wt HEAD || exit 2
git -C $wt apply /verif/seeded/$seed/patch.diff || { git -C /repo worktree remove --force $wt; exit 2; }
VERIF_REPO=$wt ./check $id --tier $tier > /verif/.work/seed_${seed}_$id.log 2>&1
rc=$?
git -C /repo worktree remove --force $wt
echo "$seed on $id ($tier): exit=$rc $(grep -E '^VIOLATION' /verif/.work/seed_${seed}_$id.log | head -2 | tr '\n' ' ')"
