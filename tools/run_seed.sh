#!/bin/sh
# run_seed.sh <seed-dir-name> <check-id> [tier]: apply a seeded defect to /repo, run the check, undo.
seed=$1; id=$2; tier=${3:-quick}
cd /verif
git -C /repo diff --quiet || { echo "/repo is dirty"; exit 2; }
git -C /repo apply /verif/seeded/$seed/patch.diff || exit 2
./check $id --tier $tier > /verif/.work/seed_$seed_$id.log 2>&1
rc=$?
git -C /repo checkout -- .
echo "$seed on $id ($tier): exit=$rc $(grep -E '^(VIOLATION|KNOWN)' /verif/.work/seed_$seed_$id.log | head -2 | tr '\n' ' ')"
