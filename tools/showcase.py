#!/usr/bin/env python3
"""print an extraction case (from a harness result JSON problem or a replay file) in readable form"""
import sys, json, base64, tarfile, io
def show(case, extra=None):
    c = json.loads(case)
    print("op=%s opts=%s dest=%s root=%s umask=%o gzip=%s" % (c["Op"], c["Opts"], c["Dest"], c["Root"], c["Umask"], c["Gzip"]))
    for n in c["Nodes"]:
        print("  node %-22s %s perm=%o uid=%d gid=%d mt=%d grp=%d %s%s%s" % (n["Path"], chr(n["Kind"]), n["Perm"], n["Uid"], n["Gid"], n["Mtime"], n["Group"],
              ("data=%r " % n["Data"]) if n["Data"] else "", ("-> %s " % n["Target"]) if n["Target"] else "", "cap" if n["Cap"] else ""))
    tf = tarfile.open(fileobj=io.BytesIO(base64.b64decode(c["Archive"])))
    for m in tf:
        print("  entry type=%r name=%r link=%r mode=%o uid=%d gid=%d mtime=%s size=%d pax=%s" % (m.type, m.name, m.linkname, m.mode, m.uid, m.gid, m.mtime, m.size, {k:v for k,v in m.pax_headers.items() if k.startswith("SCHILY")}))
if __name__ == "__main__":
    r = json.load(open(sys.argv[1]))
    if "problems" in r:
        idx = [int(a) for a in sys.argv[2:]] or range(len(r["problems"]))
        for i in idx:
            p = r["problems"][i]
            print("---- problem %d: %s | %s | impl=%s model=%s" % (i, p["kind"], p["msg"], p.get("impl"), p.get("model")))
            show(p["case"])
    else:
        print(r.get("verdict"), r.get("broken_obligations"))
        show(r["case"])
