#!/usr/bin/env python3
"""seed_table.py <matrix-file> : markdown table of a detection matrix (one row per seeded change)"""
import sys, json, re, os
rows = []
for line in open(sys.argv[1]):
    m = re.match(r"(\S+) on (\S+) \((\w+)\): exit=(\d+)\s*(.*)", line.strip())
    if not m:
        continue
    seed, pid, tier, rc, rest = m.groups()
    meta = json.load(open("/verif/seeded/%s/meta.json" % seed))
    summ = meta["summary"].replace("\n", " ").replace("|", "/")[:170]
    how, stream, broken, verdict = "MISSED", "", "", ""
    rp = re.search(r"replay=(\S+)", rest)
    if rc == "1" and rp:
        how = "no-failing-input-found" if "no-failing-input-found" in rest else "concrete replay"
        try:
            r = json.load(open("/verif/" + rp.group(1)))
            stream = r.get("stream", "")
            bo = r.get("broken_obligations") or []
            names = []
            for b in bo:
                o = b.get("obligation", "") if isinstance(b, dict) else str(b)
                o = o.replace("correspondence stream ", "corr:").replace("lake build", "proof:lake build")
                names.append(o)
            broken = ", ".join(names)[:90] or "—"
            verdict = (r.get("verdict") or "").replace("\n", " ").replace("|", "/")[:130]
        except Exception as e:
            verdict = "(replay not readable: %s)" % e
    print("| %s | %s | %s | %s | %s | %s |" % (seed, summ, how, stream, broken, verdict))
