#!/usr/bin/env python3
"""verify a seeded defect delivered by a sub-agent: suite passes with the change, demo fails with / passes without.
usage: verify_seed.py C05 m1    (uses the scratch worktree /tmp/seed/C05 and /tmp/seed/C05.out/m1)"""
import sys, os, subprocess, json, re, shutil
pid, m = sys.argv[1], sys.argv[2]
store = sys.argv[3] if len(sys.argv) > 3 else m   # name under /verif/seeded (e.g. m1 of round 2 is stored as m3)
root = os.environ.get("SEED_ROOT", "/tmp/seed")
wt = "%s/%s" % (root, pid)
src = "%s/%s.out/%s" % (root, pid, m)
env = dict(os.environ, GOFLAGS="-mod=mod", GOPROXY="off", GOSUMDB="off", GOTOOLCHAIN="local")
def sh(cmd, cwd=wt, timeout=900):
    p = subprocess.run(cmd, cwd=cwd, env=env, shell=True, stdout=subprocess.PIPE, stderr=subprocess.STDOUT, text=True, timeout=timeout)
    return p.returncode, p.stdout
log = []
def step(name, cmd, expect_ok):
    rc, out = sh(cmd)
    ok = (rc == 0) == expect_ok
    log.append("%s: `%s` -> rc=%d (%s)" % (name, cmd, rc, "as expected" if ok else "UNEXPECTED"))
    if not ok:
        print("\n".join(log)); print(out[-3000:])
    return ok
sh("git checkout -q -- . && git clean -fdq")
demo = None
for f in os.listdir(src):
    if f.endswith("_test.go"):
        demo = f
if demo is None:
    print("no demo test in", src); sys.exit(2)
pkg = re.search(r"^package (\w+)", open(os.path.join(src, demo)).read(), re.M).group(1)
pkgdir = {"archive": ".", "chrootarchive": "chrootarchive", "compression": "compression", "tarheader": "tarheader",
          "archive_test": ".", "chrootarchive_test": "chrootarchive", "compression_test": "compression"}[pkg]
patch = os.path.join(src, "patch.diff")
good = True
good &= step("apply", "git apply %s" % patch, True)
good &= step("build", "go build ./...", True)
good &= step("suite with change", "go test -vet=off -count=1 ./...", True)
shutil.copy(os.path.join(src, demo), os.path.join(wt, pkgdir, "zz_demo_test.go"))
good &= step("demo with change (must fail)", "go test -vet=off -count=1 -run 'TestDemo|TestC[0-9][0-9]|TestSeed' ./%s" % pkgdir, False)
sh("git apply -R %s" % patch)
good &= step("demo without change (must pass)", "go test -vet=off -count=1 -run 'TestDemo|TestC[0-9][0-9]|TestSeed' ./%s" % pkgdir, True)
os.remove(os.path.join(wt, pkgdir, "zz_demo_test.go"))
sh("git checkout -q -- . && git clean -fdq")
print("VERIFIED" if good else "REJECTED", pid, m)
if good:
    dst = "/verif/seeded/%s-%s" % (pid, store)
    os.makedirs(dst, exist_ok=True)
    shutil.copy(patch, os.path.join(dst, "patch.diff"))
    shutil.copy(os.path.join(src, demo), os.path.join(dst, "demo_test.go"))
    meta = json.load(open(os.path.join(src, "meta.json")))
    meta["demo_package_dir"] = pkgdir
    meta["verified_by_me"] = log
    json.dump(meta, open(os.path.join(dst, "meta.json"), "w"), indent=1)
sys.exit(0 if good else 1)
