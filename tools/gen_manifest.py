#!/usr/bin/env python3
"""regenerate MANIFEST.json from checks.json + properties.jsonl (+ manifest_texts.json for per-property wording)"""
import json, os, subprocess
R = "/verif"
props = [json.loads(l) for l in open(R + "/properties.jsonl")]
checks = json.load(open(R + "/checks.json"))
texts = json.load(open(R + "/manifest_texts.json")) if os.path.exists(R + "/manifest_texts.json") else {}
hooks = subprocess.run(["git", "-C", "/repo", "log", "--format=%h", "--grep=^verif:"], stdout=subprocess.PIPE, text=True).stdout.split()
claimed = [p["id"] for p in props if p["id"] in checks and checks[p["id"]].get("claimed", True) and checks[p["id"]]["theorems"]]
m = {
 "version": 1,
 "setup_cmd": "./setup.sh",
 "hooks": {"guard": "verif", "enable": "go build -tags verif (harness module with replace github.com/moby/go-archive => /repo)",
           "baseline_off_cmd": "cd /repo && go test -mod=mod -json -vet=off -count=1 -timeout 25m ./...",
           "source_commits": hooks, "add_only": True},
 "engines": [
  {"name": "lean-proof", "path": "lean/", "serves_properties": claimed, "kind_free_text": "Lean 4 model (GA/Go, GA/K, GA/M) + theorems (GA/Props, GA/Proofs), native model driver (Driver/)"},
  {"name": "harness", "path": "harness/", "serves_properties": claimed, "kind_free_text": "Go correspondence + independent-oracle harness built against /repo on every run; hostile inputs run in a pivot_root'ed tmpfs arena"},
  {"name": "extract", "path": "extract/", "serves_properties": claimed, "kind_free_text": "go/ast fact extractor regenerating lean/GA/Generated/Facts.lean from /repo"}],
 "checks": [], "not_applicable": [],
 "notes": "Technique: machine-checked proof in Lean 4 about a hand-written executable model, tied to /repo on every run by regenerated facts and by a correspondence check (model driver vs real code on the same generated inputs); independent oracles on the real code search for a concrete failing input when an obligation or the correspondence breaks (DESIGN.md section 3)."
}
for p in props:
    pid = p["id"]
    if pid in claimed:
        t = texts.get(pid, {})
        streams = ", ".join(s[0] for s in checks[pid]["streams"])
        m["checks"].append({
          "property_id": pid,
          "quick_cmd": "./check %s --tier quick" % pid,
          "thorough_cmd": "./check %s --tier thorough" % pid,
          "evidence_file": "evidence/%s.json" % pid,
          "replay_cmd_template": "./check %s --replay {path}" % pid,
          "engine": "lean-proof",
          "level_claimed": {"category": "proof",
             "text": t.get("text", "Lean 4 theorems (%d, listed in checks.json and in the evidence) about the model of the mechanisms this property is anchored in, re-checked and axiom-audited on every run; the model is tied to /repo by regenerated facts and by the correspondence/oracle streams: %s." % (len(checks[pid]["theorems"]), streams)),
             "design_ref": "DESIGN.md section 4 " + pid},
          "level_note": t.get("note", "Trusted: " + "; ".join(checks[pid].get("trusted_base", []))[:900]),
          "technique": t.get("technique", "Lean 4 proof over executable model + correspondence check")})
    else:
        m["not_applicable"].append({"property_id": pid, "reason": texts.get(pid, {}).get("na", "check not built yet in this round (planned at level proof, see DESIGN.md section 4 %s)" % pid)})
json.dump(m, open(R + "/MANIFEST.json", "w"), indent=1)
print("claimed:", claimed)
