#!/usr/bin/env python3
"""harvest_patch.py <finding-id> <property> <mutation.py>: like harvest_fixed.py, for a fix that no longer reverts
cleanly: the mutation script re-introduces the defect in a scratch worktree (argument: its path)."""
import json, os, subprocess, sys, shutil
ROOT = "/verif"
fid, pid, mut = sys.argv[1:4]
env = dict(os.environ, GOFLAGS="-mod=mod", GOPROXY="off", GOSUMDB="off", GOTOOLCHAIN="local")
def sh(cmd, cwd=None):
    p = subprocess.run(cmd, cwd=cwd, env=env, shell=True, stdout=subprocess.PIPE, stderr=subprocess.STDOUT, text=True)
    return p.returncode, p.stdout
checks = json.load(open(ROOT + "/checks.json"))
wt = "/tmp/hp_wt"; hs = "/tmp/hp_src"
sh("git -C /repo worktree remove --force %s; rm -rf %s %s; git -C /repo worktree prune" % (wt, wt, hs))
sh("git -C /repo worktree add -q --detach %s HEAD" % wt)
rc, out = sh("python3 %s %s" % (mut, wt))
if rc != 0: print("mutation failed", out); sys.exit(1)
rc, out = sh("go build -tags verif ./...", cwd=wt)
if rc != 0: print("NOBUILD", out[-400:]); sys.exit(1)
shutil.copytree(ROOT + "/harness", hs)
gm = open(hs + "/go.mod").read().replace("=> /repo", "=> " + wt); open(hs + "/go.mod", "w").write(gm)
rc, out = sh("go build -tags verif -o /tmp/hp_bin .", cwd=hs)
found = None
for tier, seeds in (("quick", (1, 2)), ("thorough", (1, 2, 3))):
    for seed in seeds:
        for st in checks[pid]["streams"]:
            if len(st) > 2 and st[2].get("race"): continue
            sh("/tmp/hp_bin %s --tier %s --seed %d --out /tmp/hp.json --driver %s/lean/.lake/build/bin/driver --work %s/.work/hp" % (st[0], tier, seed, ROOT, ROOT))
            try: r = json.load(open("/tmp/hp.json"))
            except Exception: continue
            cands = [p for p in r["problems"] if not p.get("sig")]
            ora = [p for p in cands if p["kind"] == "oracle"] or cands
            if ora:
                found = (st[0], min(ora, key=lambda p: len(p["case"]))); break
        if found: break
    if found: break
sh("git -C /repo worktree remove --force %s; rm -rf %s /tmp/hp_bin" % (wt, hs))
if not found: print("NOT FOUND", fid); sys.exit(1)
k = [f for f in json.load(open(ROOT + "/known_findings.json"))["findings"] if f["id"] == fid][0]
dst = os.path.join(ROOT, "corpus", pid, "fixed-" + fid + ".json")
os.makedirs(os.path.dirname(dst), exist_ok=True)
json.dump({"stream": found[0], "case": found[1]["case"], "fixed": fid, "commit": k.get("commit"), "what": k["what"], "with_defect_reintroduced": found[1]["msg"][:300]}, open(dst, "w"), indent=1)
print("ok", fid, pid, found[0], found[1]["kind"], found[1]["msg"][:100])
