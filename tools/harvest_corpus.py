#!/usr/bin/env python3
"""harvest one replayable case per known-finding signature into /verif/corpus/<property>/<sig>.json
usage: harvest_corpus.py <harness-binary> [sig ...]"""
import json, os, subprocess, sys
ROOT = "/verif"
exe = sys.argv[1]
want = set(sys.argv[2:])
checks = json.load(open(ROOT + "/checks.json"))
known = [k for k in json.load(open(ROOT + "/known_findings.json"))["findings"] if k["status"] == "known"]
drv = ROOT + "/lean/.lake/build/bin/driver"
for k in known:
    if want and k["id"] not in want: continue
    pid = k["property"]
    dst = os.path.join(ROOT, "corpus", pid, k["id"] + ".json")
    if os.path.exists(dst) and not want: continue
    found = None
    for tier in ("quick", "thorough"):
        for seed in (1, 2, 3, 4, 5):
            for st in checks[pid]["streams"]:
                out = "/tmp/harvest.json"
                subprocess.run([exe, st[0], "--tier", tier, "--seed", str(seed), "--out", out, "--driver", drv,
                                "--work", ROOT + "/.work/harvest"] + (st[1] if len(st) > 1 and isinstance(st[1], list) else []),
                               stdout=subprocess.DEVNULL, stderr=subprocess.DEVNULL)
                r = json.load(open(out))
                cands = [p for p in r["problems"] if p.get("sig") == k["id"]]
                if cands:
                    found = (st[0], min(cands, key=lambda p: len(p["case"])))
                    break
            if found: break
        if found: break
    if not found:
        print("NOT FOUND", k["id"]); continue
    os.makedirs(os.path.dirname(dst), exist_ok=True)
    json.dump({"stream": found[0], "sig": k["id"], "case": found[1]["case"], "what": k["what"]}, open(dst, "w"), indent=1)
    print("ok", k["id"], found[0], len(found[1]["case"]))
