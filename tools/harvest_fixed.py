#!/usr/bin/env python3
"""For every finding marked fixed: revert its fix in a scratch worktree, run the property's streams against
that tree and keep one failing case as corpus/<property>/fixed-<id>.json.  On the repaired tree the case is
silent; if the defect ever returns it fails first, with this case as the replay."""
import json, os, subprocess, sys, shutil
ROOT = "/verif"
env = dict(os.environ, GOFLAGS="-mod=mod", GOPROXY="off", GOSUMDB="off", GOTOOLCHAIN="local")
def sh(cmd, cwd=None):
    p = subprocess.run(cmd, cwd=cwd, env=env, shell=True, stdout=subprocess.PIPE, stderr=subprocess.STDOUT, text=True)
    return p.returncode, p.stdout
checks = json.load(open(ROOT + "/checks.json"))
fixed = [f for f in json.load(open(ROOT + "/known_findings.json"))["findings"] if f["status"] == "fixed"]
want = set(sys.argv[1:])
drv = ROOT + "/lean/.lake/build/bin/driver"
extra_props = {"D6": ["C06"], "D11": ["C12"], "D12": ["C14"], "D17": ["C19"], "D18": ["C17"], "D23": ["C05"], "D24": ["C06"]}
for f in fixed:
    if want and f["id"] not in want: continue
    pid = f["property"]
    dst = os.path.join(ROOT, "corpus", pid, "fixed-" + f["id"] + ".json")
    if os.path.exists(dst) and not want: print("have", f["id"]); continue
    wt = "/tmp/hf_wt"; hs = "/tmp/hf_src"
    sh("git -C /repo worktree remove --force %s; rm -rf %s %s; git -C /repo worktree prune" % (wt, wt, hs))
    rc, out = sh("git -C /repo worktree add -q --detach %s HEAD" % wt)
    rc, out = sh("git revert --no-commit %s" % f["commit"], cwd=wt)
    if rc != 0:
        print("CONFLICT", f["id"], f["commit"]); sh("git -C /repo worktree remove --force %s" % wt); continue
    rc, out = sh("go build -tags verif ./...", cwd=wt)
    if rc != 0:
        print("NOBUILD", f["id"]); sh("git -C /repo worktree remove --force %s" % wt); continue
    shutil.copytree(ROOT + "/harness", hs)
    gm = open(hs + "/go.mod").read().replace("=> /repo", "=> " + wt); open(hs + "/go.mod", "w").write(gm)
    rc, out = sh("go build -tags verif -o /tmp/hf_bin .", cwd=hs)
    if rc != 0:
        print("NOHARNESS", f["id"], out[-300:]); continue
    found = None
    for prop in [pid] + extra_props.get(f["id"], []):
        for tier, seeds in (("quick", (1, 2)), ("thorough", (1, 2, 3))):
            for seed in seeds:
                for st in checks[prop]["streams"]:
                    if len(st) > 2 and st[2].get("race"): continue
                    sh("/tmp/hf_bin %s --tier %s --seed %d --out /tmp/hf.json --driver %s --work %s/.work/hf" % (st[0], tier, seed, drv, ROOT))
                    try: r = json.load(open("/tmp/hf.json"))
                    except Exception: continue
                    cands = [p for p in r["problems"] if not p.get("sig")]
                    ora = [p for p in cands if p["kind"] == "oracle"] or cands
                    if ora:
                        found = (prop, st[0], min(ora, key=lambda p: len(p["case"])))
                        break
                if found: break
            if found: break
        if found: break
    sh("git -C /repo worktree remove --force %s; rm -rf %s /tmp/hf_bin" % (wt, hs))
    if not found:
        print("NOT FOUND", f["id"]); continue
    prop, stream, p = found
    dst = os.path.join(ROOT, "corpus", prop, "fixed-" + f["id"] + ".json")
    os.makedirs(os.path.dirname(dst), exist_ok=True)
    json.dump({"stream": stream, "case": p["case"], "fixed": f["id"], "commit": f["commit"], "what": f["what"], "with_fix_reverted": p["msg"][:300]}, open(dst, "w"), indent=1)
    print("ok", f["id"], prop, stream, p["kind"], p["msg"][:90])
