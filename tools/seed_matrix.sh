#!/bin/sh
# seed_matrix.sh [tier]: run every seeded defect against the check of its own property (scratch worktree + VERIF_REPO)
tier=${1:-quick}
cd /verif
: > /verif/.work/matrix_$tier.txt
for d in seeded/C*/; do
  s=$(basename $d); id=${s%%-*}
  tools/run_seed.sh $s $id $tier | tee -a /verif/.work/matrix_$tier.txt
done
