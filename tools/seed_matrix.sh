#!/bin/sh
# seed_matrix.sh [tier] [glob] [parallel]: run seeded changes (default: all) against the check of their own
# property (scratch worktree + VERIF_REPO + private copy of the Lean project per run)
tier=${1:-quick}; glob=${2:-C*}; par=${3:-4}
cd /verif
out=/verif/.work/matrix_$tier.txt
: > $out
ls -d seeded/$glob | xargs -n1 basename | xargs -P $par -I{} sh -c 's={}; id=${s%%-*}; tools/run_seed.sh $s $id '"$tier"' >> '"$out"
sort -o $out $out
cat $out
